#!/venv/bin/python
"""Entry point: run_check.py <ID> --tier quick|thorough | --replay <file>"""
import os
import sys

sys.path.insert(0, os.path.dirname(os.path.abspath(__file__)))
from sim.runner import main  # noqa: E402

if __name__ == "__main__":
    sys.exit(main())
