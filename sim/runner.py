"""Seeded search driver: forks workers, runs many independent simulated runs,
classifies violations against known_findings.json, minimises, writes replay
files and evidence.

Exit codes: 0 held / 1 violation / 2 harness error.
"""
from __future__ import annotations

import argparse
import faulthandler
import importlib
import json
import os
import signal
import sys
import time
import traceback
from concurrent.futures import ProcessPoolExecutor, as_completed
from multiprocessing import get_context
from typing import Any

VERIF = os.path.dirname(os.path.dirname(os.path.abspath(__file__)))

from .clock import REAL_MONOTONIC  # noqa: E402
from .tape import Tape, derive_seed  # noqa: E402


def _load(prop: str):
    return importlib.import_module(f"props.{prop.lower()}")


def _worker_init() -> None:
    faulthandler.enable()
    signal.signal(signal.SIGINT, signal.SIG_IGN)
    from . import boot

    boot.boot()


def run_one(prop: str, tape: Tape, idx: int | None = None) -> dict:
    """One simulated run, exceptions classified as harness errors."""
    mod = _load(prop)
    try:
        if idx is not None and hasattr(mod, "run_indexed"):
            res = mod.run_indexed(idx, tape)      # enumerating checks map the run index to a case
        else:
            res = mod.run(tape)
    except BaseException as e:  # noqa: BLE001
        if isinstance(e, (KeyboardInterrupt, SystemExit)):
            raise
        res = {"violations": [], "harness": f"{type(e).__name__}: {e}",
               "tb": traceback.format_exc(limit=12)}
    res.setdefault("violations", [])
    res.setdefault("harness", None)
    return res


def _chunk(prop: str, base_seed: int, start: int, count: int, deadline: float | None,
           want_samples: int) -> dict:
    faulthandler.dump_traceback_later(600, exit=True)
    agg: dict[str, Any] = {"runs": 0, "nontrivial_shapes": set(), "shapes": set(), "faults": {},
                           "probes": {}, "sim_time": 0.0, "steps": 0, "violations": [],
                           "harness": {}, "samples": [], "states": set(), "evals": 0,
                           "harness_examples": []}
    for i in range(start, start + count):
        if deadline is not None and REAL_MONOTONIC() > deadline:
            break
        seed = derive_seed(base_seed, prop, i)
        tape = Tape(seed)
        res = run_one(prop, tape, idx=i)
        agg["runs"] += 1
        agg["evals"] += res.get("evals", 1)
        if res["harness"]:
            k = res["harness"].split(":")[0]
            agg["harness"][k] = agg["harness"].get(k, 0) + 1
            if len(agg["harness_examples"]) < 2:
                agg["harness_examples"].append({"seed": seed, "idx": i, "err": res["harness"],
                                                "tb": res.get("tb", "")})
            continue
        sh = res.get("shape")
        if sh is not None:
            agg["shapes"].add(sh)
            if res.get("nontrivial"):
                agg["nontrivial_shapes"].add(sh)
        for sub in res.get("nontrivial_shapes", ()):  # props that evaluate several cases per run
            agg["nontrivial_shapes"].add(sub)
        for k, v in res.get("faults", {}).items():
            agg["faults"][k] = agg["faults"].get(k, 0) + v
        for k, v in res.get("probes", {}).items():
            agg["probes"][k] = agg["probes"].get(k, 0) + v
        agg["sim_time"] += res.get("sim_time", 0.0)
        agg["steps"] += res.get("steps", 0)
        for st in res.get("states", ()):  # abstract states
            if len(agg["states"]) < 200_000:
                agg["states"].add(st)
        if res.get("sample") is not None and len(agg["samples"]) < want_samples and res.get("nontrivial"):
            agg["samples"].append(res["sample"])
        for v in res["violations"]:
            if len(agg["violations"]) < 400:
                agg["violations"].append({"seed": seed, "idx": i, "tape": list(tape.values),
                                          "digest": res.get("digest"), **v})
    faulthandler.cancel_dump_traceback_later()
    return agg


# ---------------------------------------------------------------------------
# known findings


def load_known() -> list[dict]:
    p = os.path.join(VERIF, "known_findings.json")
    if os.environ.get("VERIF_IGNORE_KNOWN"):
        return []  # maintenance only: regenerate replay files of known findings
    if not os.path.exists(p):
        return []
    with open(p) as f:
        return json.load(f).get("findings", [])


def match_known(v: dict, known: list[dict]) -> dict | None:
    for k in known:
        if k.get("status") != "known":
            continue
        sig = k["signature"]
        if sig.get("rule") != v["rule"]:
            continue
        cause = sig.get("cause", {})
        if all(_norm(v["cause"].get(key)) == _norm(val) for key, val in cause.items()):
            return k
    return None


def _norm(x: Any) -> Any:
    if isinstance(x, tuple):
        return [_norm(i) for i in x]
    if isinstance(x, list):
        return [_norm(i) for i in x]
    return x


def sig_of(v: dict) -> str:
    return v["rule"] + "|" + json.dumps(_norm(v["cause"]), sort_keys=True, default=str)


# ---------------------------------------------------------------------------
# minimisation (tape-level delta debugging)


def _reproduces(prop: str, values: list[int], rule: str, known: list[dict], cause: dict | None = None, idx: int | None = None) -> tuple[bool, dict | None, list[int]]:
    tape = Tape(replay=values)
    res = run_one(prop, tape, idx=idx)
    if res["harness"]:
        return False, None, values
    for v in res["violations"]:
        if v["rule"] == rule and match_known(v, known) is None and (cause is None or _norm(v["cause"]) == _norm(cause)):
            vals = list(tape.values)
            while vals and vals[-1] == 0:
                vals.pop()
            return True, {**v, "digest": res.get("digest")}, vals
    return False, None, values


def minimise(prop: str, values: list[int], rule: str, known: list[dict], budget: int = 250, cause: dict | None = None, idx: int | None = None) -> tuple[list[int], dict | None, int]:
    ok, v, vals = _reproduces(prop, values, rule, known, cause, idx)
    if not ok:
        return values, None, 1
    best, bestv = vals, v
    used = 1

    def attempt(cand: list[int]) -> bool:
        nonlocal best, bestv, used
        if used >= budget:
            return False
        used += 1
        ok, vv, consumed = _reproduces(prop, cand, rule, known, cause, idx)
        if ok and (len(consumed), sum(consumed)) < (len(best), sum(best)):
            best, bestv = consumed, vv
            return True
        return False

    # 1. truncate (replay pads with zeros)
    n = len(best)
    while n > 0 and used < budget:
        n //= 2
        if not attempt(best[:n]):
            break
    # 2. delete / zero chunks
    size = max(1, len(best) // 2)
    while size >= 1 and used < budget:
        i = 0
        progressed = False
        while i < len(best) and used < budget:
            cand = best[:i] + best[i + size:]
            if attempt(cand):
                progressed = True
                continue
            if any(best[i:i + size]):
                cand = best[:i] + [0] * len(best[i:i + size]) + best[i + size:]
                if attempt(cand):
                    progressed = True
            i += size
        if not progressed:
            size //= 2
    # 3. lower single values
    for i in range(len(best)):
        if used >= budget:
            break
        if i < len(best) and best[i] > 0:
            for nv in (0, best[i] // 2, best[i] - 1):
                if nv < best[i]:
                    cand = list(best)
                    cand[i] = nv
                    if attempt(cand):
                        break
    return best, bestv, used


def _min_job(prop: str, values: list[int], rule: str, cause: dict, budget: int, idx: int | None = None) -> tuple[list[int], dict | None, int]:
    faulthandler.dump_traceback_later(900, exit=True)
    try:
        return minimise(prop, values, rule, load_known(), budget, cause, idx)
    finally:
        faulthandler.cancel_dump_traceback_later()


# ---------------------------------------------------------------------------
# main


def main(argv: list[str] | None = None) -> int:
    ap = argparse.ArgumentParser()
    ap.add_argument("prop")
    ap.add_argument("--tier", default=os.environ.get("VERIF_TIER", "quick"), choices=["quick", "thorough"])
    ap.add_argument("--replay")
    ap.add_argument("--runs", type=int)
    ap.add_argument("--seconds", type=float)
    ap.add_argument("--workers", type=int, default=int(os.environ.get("VERIF_WORKERS", "0")) or (os.cpu_count() or 4))
    ap.add_argument("--no-minimise", action="store_true")
    ap.add_argument("--no-evidence", action="store_true")
    ap.add_argument("--digest-out")
    args = ap.parse_args(argv)

    if os.environ.get("PYTHONHASHSEED") is None:
        env = dict(os.environ, PYTHONHASHSEED="0", PYTHONDONTWRITEBYTECODE="1")
        os.execve(sys.executable, [sys.executable, os.path.join(VERIF, "run_check.py")] + (argv if argv is not None else sys.argv[1:]), env)

    prop = args.prop.upper()
    sys.path.insert(0, VERIF)
    seed = int(os.environ.get("VERIF_SEED", "0") or 0)
    if args.replay:
        return replay(prop, args.replay)

    from . import boot
    boot.boot()
    mod = _load(prop)
    known = load_known()
    t0 = REAL_MONOTONIC()
    tier = args.tier
    os.environ["VERIF_TIER"] = tier
    runs = args.runs if args.runs is not None else (mod.QUICK_RUNS if tier == "quick" else None)
    seconds = args.seconds if args.seconds is not None else (getattr(mod, "THOROUGH_SECONDS", 600) if tier == "thorough" else getattr(mod, "QUICK_SECONDS_CAP", 240))
    deadline = t0 + seconds
    workers = max(1, args.workers)
    chunk = max(1, getattr(mod, "CHUNK", 25))
    print(f"[{prop}] tier={tier} VERIF_SEED={seed} workers={workers} runs={'time-boxed' if runs is None else runs} budget_s={seconds}", flush=True)

    total: dict[str, Any] = {"runs": 0, "nontrivial_shapes": set(), "shapes": set(), "faults": {}, "probes": {},
                             "sim_time": 0.0, "steps": 0, "violations": [], "harness": {}, "samples": [],
                             "states": set(), "evals": 0, "harness_examples": []}
    ctx = get_context("fork")
    pool_broken = False
    with ProcessPoolExecutor(max_workers=workers, mp_context=ctx, initializer=_worker_init) as ex:
        futs = []
        nxt = 0

        def submit_one() -> bool:
            nonlocal nxt
            if runs is not None and nxt >= runs:
                return False
            cnt = chunk if runs is None else min(chunk, runs - nxt)
            futs.append(ex.submit(_chunk, prop, seed, nxt, cnt, deadline, 3))
            nxt += cnt
            return True

        for _ in range(workers * 2):
            if not submit_one():
                break
        pending = set(futs)
        try:
            while pending:
                done = next(as_completed(pending, timeout=max(30.0, seconds + 120)))
                pending.discard(done)
                agg = done.result()
                _merge(total, agg)
                if REAL_MONOTONIC() < deadline and submit_one():
                    pending.add(futs[-1])
        except Exception as e:  # noqa: BLE001
            print(f"[{prop}] HARNESS pool failure: {type(e).__name__}: {e}", flush=True)
            pool_broken = True
            for f in pending:
                f.cancel()

        # classify
        replay_files: list[str] = []
        new_by_sig: dict[str, list[dict]] = {}
        known_hits: dict[str, tuple[dict, int]] = {}
        for v in total["violations"]:
            k = match_known(v, known)
            if k is not None:
                kid = k.get("id") or sig_of({"rule": k["signature"]["rule"], "cause": k["signature"].get("cause", {})})
                known_hits[kid] = (k, known_hits.get(kid, (k, 0))[1] + 1)
            else:
                new_by_sig.setdefault(sig_of(v), []).append(v)

        if new_by_sig and not pool_broken:
            os.makedirs(os.path.join(VERIF, "replays"), exist_ok=True)
            jobs = {}
            for sig, vs in sorted(new_by_sig.items())[:12]:
                vs.sort(key=lambda v: len(v["tape"]))
                v = vs[0]
                if args.no_minimise:
                    jobs[sig] = (v, None, vs)
                else:
                    jobs[sig] = (v, ex.submit(_min_job, prop, v["tape"], v["rule"], v["cause"], getattr(mod, "MIN_BUDGET", 200), v["idx"]), vs)
            for n_sig, (sig, (v, fut, vs)) in enumerate(jobs.items()):
                rule = v["rule"]
                tape_vals, vmin, used = v["tape"], None, 0
                if fut is not None:
                    try:
                        tape_vals, vmin, used = fut.result(timeout=900)
                    except Exception as e:  # noqa: BLE001
                        print(f"[{prop}] minimiser failed for {rule}: {e}", flush=True)
                vv = vmin or v
                path = os.path.join(VERIF, "replays", f"{prop}-{rule.split('.', 1)[-1]}-{v['seed']}-{n_sig}.json")
                with open(path, "w") as f:
                    json.dump({"property": prop, "oracle_rule": rule, "seed": v["seed"], "run_index": v["idx"],
                               "verif_seed": seed, "tape": tape_vals, "original_tape_len": len(v["tape"]),
                               "minimiser_executions": used,
                               "expected_violation": {"rule": vv["rule"], "cause": _norm(vv["cause"]), "msg": vv["msg"]},
                               "trace_digest": vv.get("digest")}, f, indent=1, default=str)
                replay_files.append(path)
                print(f"VIOLATION property={prop} replay={path}")
                print(f"  rule={vv['rule']} cause={json.dumps(_norm(vv['cause']), default=str)}")
                print(f"  {vv['msg']}")
                print(f"  ({len(vs)} runs with this rule; tape {len(v['tape'])} -> {len(tape_vals)} draws after {used} minimiser executions)")

    for kid, (k, n) in sorted(known_hits.items()):
        print(f"KNOWN-FINDING: property={prop} {k['what']} [{k['signature']['rule']} x{n}]")

    wall = REAL_MONOTONIC() - t0
    harness_n = sum(total["harness"].values())
    if total["harness_examples"]:
        for hx in total["harness_examples"][:2]:
            print(f"[{prop}] HARNESS example seed={hx['seed']} idx={hx['idx']}: {hx['err']}\n{hx['tb']}", flush=True)
    print(f"[{prop}] runs={total['runs']} evals={total['evals']} nontrivial_distinct={len(total['nontrivial_shapes'])} "
          f"shapes={len(total['shapes'])} states={len(total['states'])} sim_s={total['sim_time']:.0f} "
          f"harness={total['harness']} wall={wall:.1f}s runs/h={total['runs'] / max(wall, 1e-9) * 3600:.0f}", flush=True)
    print(f"[{prop}] faults={json.dumps(total['faults'], sort_keys=True)}")
    print(f"[{prop}] probes={json.dumps(total['probes'], sort_keys=True)}")
    zero = [p for p in getattr(mod, "EXPECTED_PROBES", []) if not total["probes"].get(p)]
    if zero:
        print(f"[{prop}] WARNING probes never hit: {zero}")

    if not args.no_evidence:
        write_evidence(mod, prop, tier, seed, total, wall, known_hits, new_by_sig, zero, workers)

    if pool_broken:
        return 2
    if new_by_sig and replay_files:
        return 1
    # an exception escaping a run is never tolerated (it may be hiding a violation); step/time caps and deadlocks are, in small numbers
    exc_n = sum(v for k, v in total["harness"].items() if k not in ("cap", "deadlock"))
    if total["runs"] == 0 or exc_n > 0 or harness_n > max(3, total["runs"] * getattr(mod, "HARNESS_TOLERANCE", 0.02)):
        print(f"[{prop}] HARNESS-ERROR: {harness_n} of {total['runs']} runs hit harness conditions {total['harness']}")
        return 2
    if runs is not None and total["runs"] < runs:
        print(f"[{prop}] HARNESS-ERROR: only {total['runs']} of {runs} runs completed within {seconds}s")
        return 2
    if new_by_sig:
        return 1
    return 0


def _merge(total: dict, agg: dict) -> None:
    total["runs"] += agg["runs"]
    total["evals"] += agg["evals"]
    total["nontrivial_shapes"] |= agg["nontrivial_shapes"]
    total["shapes"] |= agg["shapes"]
    total["states"] |= agg["states"]
    for k in ("faults", "probes", "harness"):
        for kk, v in agg[k].items():
            total[k][kk] = total[k].get(kk, 0) + v
    total["sim_time"] += agg["sim_time"]
    total["steps"] += agg["steps"]
    total["violations"].extend(agg["violations"])
    if len(total["samples"]) < 3:
        total["samples"].extend(agg["samples"][: 3 - len(total["samples"])])
    if len(total["harness_examples"]) < 2:
        total["harness_examples"].extend(agg["harness_examples"])


def write_evidence(mod, prop, tier, seed, total, wall, known_hits, new_by_sig, zero_probes, workers) -> None:
    os.makedirs(os.path.join(VERIF, "evidence"), exist_ok=True)
    samples = total["samples"] or [{"note": "no non-trivial sample captured in this run"}]
    cov = {
        "evaluations": int(total["evals"]),
        "distinct_nontrivial": len(total["nontrivial_shapes"]),
        "rule": mod.RULE_TEXT,
        "samples": samples[:3],
        "simulated_runs": total["runs"],
        "distinct_trace_shapes": len(total["shapes"]),
        "distinct_abstract_states": len(total["states"]),
        "simulated_seconds": round(total["sim_time"], 3),
        "loop_iterations": total["steps"],
        "runs_per_hour": round(total["runs"] / max(wall, 1e-9) * 3600),
        "seeds_per_hour": round(total["runs"] / max(wall, 1e-9) * 3600),
        "workers": workers,
        "faults_fired": total["faults"],
        "reach_probes": total["probes"],
        "probes_never_hit": zero_probes,
        "harness_conditions": total["harness"],
        "known_findings_matched": {kid: n for kid, (k, n) in known_hits.items()},
        "new_violation_signatures": {r: len(vs) for r, vs in new_by_sig.items()},
        "components": getattr(mod, "COMPONENTS", {}),
        "exhaustive": False,
    }
    extra = getattr(mod, "EVIDENCE_EXTRA", None)
    if extra:
        cov.update(extra)
    ev = {
        "property_id": prop, "tier": tier, "seed": seed, "level": mod.LEVEL,
        "coverage": cov,
        "assumptions": getattr(mod, "ASSUMPTIONS", []),
        "wall_s": round(wall, 2),
        "violations": sum(len(v) for v in new_by_sig.values()),
    }
    path = os.path.join(VERIF, "evidence", f"{prop}.json")
    tmp = path + ".tmp"
    with open(tmp, "w") as f:
        json.dump(ev, f, indent=1, default=str)
    os.replace(tmp, path)


def replay(prop: str, path: str) -> int:
    from . import boot
    boot.boot()
    with open(path) as f:
        rf = json.load(f)
    tape = Tape(replay=rf["tape"], keep_labels=True)
    if os.environ.get("VERIF_SHOW_TRACE"):
        os.environ["VERIF_WANT_TRACE"] = "1"
    res = run_one(prop, tape, idx=rf.get("run_index"))
    if res["harness"]:
        print(f"REPLAY-HARNESS-ERROR {res['harness']}\n{res.get('tb', '')}")
        return 2
    exp = rf["expected_violation"]
    hit = [v for v in res["violations"] if v["rule"] == exp["rule"] and _norm(v["cause"]) == exp["cause"]]
    print(f"[{prop}] replay {path}: digest={res.get('digest')} expected={rf.get('trace_digest')}")
    if os.environ.get("VERIF_SHOW_TRACE"):
        for line in res.get("trace_excerpt", []):
            print("   ", line)
    if hit and (rf.get("trace_digest") in (None, res.get("digest"))):
        v = hit[0]
        print(f"VIOLATION property={prop} replay={path}")
        print(f"  rule={v['rule']} cause={json.dumps(_norm(v['cause']), default=str)}\n  {v['msg']}")
        return 1
    if hit:
        print("REPLAY-DIVERGED: violation reproduced but trace digest differs")
        return 2
    print("REPLAY-DIVERGED: expected violation not reproduced; got " + json.dumps([v["rule"] for v in res["violations"]]))
    return 2 if rf.get("trace_digest") != res.get("digest") else 0


if __name__ == "__main__":
    sys.exit(main())
