"""SimLoop: a virtual-time asyncio event loop with no selector, no threads and
no real clock.  Scheduling freedom is deliberately small (DESIGN §1.3):

* the ready queue is FIFO, exactly as in BaseEventLoop;
* when nothing is ready the clock jumps to the next timer;
* timers due at the same virtual instant are ordered by a tape draw;
* executor jobs run inline from a timer at a tape-chosen later instant;
* Task hash values are salted sequence numbers, so iteration order of sets of
  tasks is a function of the tape, not of memory addresses.
"""
from __future__ import annotations

import asyncio
import heapq
import math
from asyncio import events
from typing import Any, Callable

from .clock import SimClock, set_active


class SimDeadlock(Exception):
    """Nothing is ready, no timer is pending, and nobody waits for quiescence."""


class SimCap(Exception):
    """Step or virtual-time cap exceeded (harness condition, not a violation)."""


_salt = [0]
_seq = [0]


class SimTask(asyncio.Task):
    # deterministic hash => deterministic order of `set[Task]` iteration
    def __init__(self, coro, *, loop=None, name=None, context=None):
        _seq[0] += 1
        self._sim_no = _seq[0]
        self._sim_hash = ((self._sim_no * 2654435761) ^ _salt[0]) & 0x7FFFFFFF
        self.sim_tag = None
        super().__init__(coro, loop=loop, name=name or f"T{self._sim_no}", context=context)

    def __hash__(self) -> int:
        return self._sim_hash

    def __eq__(self, other: object) -> bool:
        return self is other


class SimLoop(asyncio.BaseEventLoop):
    def __init__(self, clock: SimClock, tape=None, *, max_steps: int = 200_000,
                 max_time: float = 1e7, quiesce_gap: float = 500.0,
                 tie_shuffle: bool = True, salt: int = 0) -> None:
        super().__init__()
        self.clock = clock
        self.tape = tape
        self.max_steps = max_steps
        self.max_time = max_time
        self.quiesce_gap = quiesce_gap
        self.tie_shuffle = tie_shuffle
        self.steps = 0
        self.handles_run = 0
        self._clock_resolution = 1e-12
        self.stable_hooks: list[Callable[[], None]] = []
        self._quiesce_waiters: list[asyncio.Future] = []
        self.executor_delay: Callable[[], float] = lambda: 0.0
        self.stats = {"clock_jumps": 0, "timer_ties": 0, "executor_jobs": 0,
                      "stable_instants": 0, "quiescences": 0}
        self.task_hook: Callable[[SimTask], None] | None = None
        _salt[0] = salt & 0x7FFFFFFF
        _seq[0] = 0
        self.set_task_factory(self._factory)

    # -- clocks ---------------------------------------------------------
    def time(self) -> float:
        return self.clock.monotonic()

    @property
    def now(self) -> float:
        return self.clock.t

    # -- plumbing BaseEventLoop expects -----------------------------------
    def _process_events(self, event_list) -> None:  # pragma: no cover
        pass

    def _write_to_self(self) -> None:
        pass

    def call_soon_threadsafe(self, callback, *args, context=None):
        return self.call_soon(callback, *args, context=context)

    def _factory(self, loop, coro, **kw):
        t = SimTask(coro, loop=loop, **kw)
        if self.task_hook is not None:
            self.task_hook(t)
        return t

    def run_in_executor(self, executor, func, *args):
        fut = self.create_future()
        self.stats["executor_jobs"] += 1

        def _run() -> None:
            if fut.cancelled():
                return
            try:
                res = func(*args)
            except BaseException as e:  # noqa: BLE001
                if isinstance(e, (SystemExit, KeyboardInterrupt)):
                    raise
                if not fut.cancelled():
                    fut.set_exception(e)
            else:
                if not fut.cancelled():
                    fut.set_result(res)

        self.call_later(max(0.0, self.executor_delay()), _run)
        return fut

    def set_default_executor(self, executor) -> None:
        pass

    async def shutdown_default_executor(self, timeout=None) -> None:
        return None

    def stall(self, d: float) -> None:
        """The running callback blocks the thread for d seconds (CPU-bound / synchronous work): the clock moves, nothing
        else runs; timers that became due meanwhile fire afterwards in deadline order."""
        if d > 0:
            self.clock.t += d
            self.stats["stalls"] = self.stats.get("stalls", 0) + 1

    # -- quiescence -------------------------------------------------------
    def quiesce(self) -> asyncio.Future:
        """Future resolved at the next stable instant at which no timer is due
        within `quiesce_gap` (nothing can happen without external input)."""
        fut = self.create_future()
        self._quiesce_waiters.append(fut)
        return fut

    def _next_timer(self) -> float | None:
        sched = self._scheduled
        while sched and sched[0]._cancelled:
            h = heapq.heappop(sched)
            h._scheduled = False
            self._timer_cancelled_count = max(0, self._timer_cancelled_count - 1)
        return sched[0]._when if sched else None

    def _stable(self) -> None:
        self.stats["stable_instants"] += 1
        for hook in self.stable_hooks:
            hook()
        if self._ready:
            return
        if self._quiesce_waiters:
            nxt = self._next_timer()
            if nxt is None or nxt - self.time() > self.quiesce_gap:
                self.stats["quiescences"] += 1
                waiters, self._quiesce_waiters = self._quiesce_waiters, []
                for w in waiters:
                    if not w.done():
                        w.set_result(self.clock.t)

    # -- the scheduler ----------------------------------------------------
    def _run_once(self) -> None:
        self.steps += 1
        if self.steps > self.max_steps:
            raise SimCap(f"step cap {self.max_steps}")
        if not self._ready and not self._stopping:
            nxt = self._next_timer()
            if nxt is None or nxt > self.time():
                self._stable()
            if not self._ready and not self._stopping:
                nxt = self._next_timer()
                if nxt is None:
                    raise SimDeadlock("no ready handle, no timer")
                now = self.time()
                if nxt > now:
                    self.clock.t += nxt - now
                    # guard against float rounding: make the timer exactly due
                    while self.time() < nxt:
                        self.clock.t = math.nextafter(self.clock.t, math.inf)
                    self.stats["clock_jumps"] += 1
                    if self.clock.t > self.max_time:
                        raise SimCap(f"time cap {self.max_time}")
        # move due timers
        sched = self._scheduled
        now = self.time()
        due = []
        while sched:
            h = sched[0]
            if h._cancelled:
                heapq.heappop(sched)
                h._scheduled = False
                self._timer_cancelled_count = max(0, self._timer_cancelled_count - 1)
                continue
            if h._when > now:
                break
            heapq.heappop(sched)
            h._scheduled = False
            due.append(h)
        if len(due) > 1 and self.tie_shuffle and self.tape is not None:
            # order timers of one instant by tape draws (grouped by exact when)
            out = []
            i = 0
            while i < len(due):
                j = i
                while j < len(due) and due[j]._when == due[i]._when:
                    j += 1
                grp = due[i:j]
                if len(grp) > 1:
                    self.stats["timer_ties"] += 1
                    while len(grp) > 1:
                        k = self.tape.draw(len(grp), "tie")
                        out.append(grp.pop(k))
                out.extend(grp)
                i = j
            due = out
        self._ready.extend(due)
        ntodo = len(self._ready)
        for _ in range(ntodo):
            handle = self._ready.popleft()
            if handle._cancelled:
                continue
            self.handles_run += 1
            handle._run()
        handle = None

    # -- running ----------------------------------------------------------
    def run_sim(self, coro) -> Any:
        """Run `coro` to completion under this loop with the sim clock active."""
        set_active(self.clock)
        events.set_event_loop(self)
        try:
            return self.run_until_complete(coro)
        finally:
            set_active(None)

    def drain_and_close(self) -> None:
        """Cancel whatever is left (bounded), then close."""
        set_active(self.clock)
        try:
            for _ in range(50):
                pending = [t for t in asyncio.all_tasks(self) if not t.done()]
                if not pending:
                    break
                for t in sorted(pending, key=lambda x: getattr(x, "_sim_no", 0)):
                    t.cancel()
                self._quiesce_waiters.clear()
                self.stable_hooks.clear()
                try:
                    self.run_until_complete(_gather_quiet(pending))
                except BaseException:  # noqa: BLE001
                    break
        finally:
            set_active(None)
            try:
                self._ready.clear()
                self._scheduled.clear()
                self.close()
            except Exception:
                pass
            events.set_event_loop(None)


async def _gather_quiet(tasks) -> None:
    await asyncio.gather(*tasks, return_exceptions=True)
