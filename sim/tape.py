"""Decision tape: the single source of every choice a simulated run makes.

explore mode : values come from random.Random(seed) and are recorded.
replay mode  : values come from a recorded list; an exhausted tape or an
               out-of-range value yields 0 ("the simplest choice"), so every
               mutated tape produced by the shrinker is still a valid run.
"""
from __future__ import annotations

import hashlib
import random
from typing import Any, Sequence


def derive_seed(*parts: Any) -> int:
    h = hashlib.sha256("|".join(str(p) for p in parts).encode()).digest()
    return int.from_bytes(h[:8], "big")


class Tape:
    __slots__ = ("seed", "_rng", "_replay", "_pos", "values", "labels", "keep_labels")

    def __init__(self, seed: int | None = None, replay: Sequence[int] | None = None,
                 keep_labels: bool = False) -> None:
        self.seed = seed
        self._rng = random.Random(seed) if replay is None else None
        self._replay = list(replay) if replay is not None else None
        self._pos = 0
        self.values: list[int] = []
        self.labels: list[str] = []
        self.keep_labels = keep_labels

    def draw(self, n: int, label: str = "") -> int:
        """Uniform-ish integer in [0, n). n <= 1 returns 0 without consuming."""
        if n <= 1:
            return 0
        if self._replay is None:
            v = self._rng.randrange(n)
        else:
            if self._pos < len(self._replay):
                v = self._replay[self._pos]
                if not (0 <= v < n):
                    v = 0
            else:
                v = 0
            self._pos += 1
        self.values.append(v)
        if self.keep_labels:
            self.labels.append(f"{label}<{n}")
        return v

    def choice(self, seq: Sequence[Any], label: str = "") -> Any:
        return seq[self.draw(len(seq), label)]

    def chance(self, num: int, den: int, label: str = "") -> bool:
        """True with probability num/den; value 0 (shrunk) means False."""
        if num <= 0:
            return False
        if num >= den:
            return True
        return self.draw(den, label) >= den - num

    def rng_int(self, lo: int, hi: int, label: str = "") -> int:
        """integer in [lo, hi]; shrinks towards lo."""
        return lo + self.draw(hi - lo + 1, label)

    def subset(self, seq: Sequence[Any], label: str = "", min_size: int = 0) -> list:
        out = [x for x in seq if self.draw(2, label)]
        i = 0
        while len(out) < min_size and i < len(seq):
            if seq[i] not in out:
                out.append(seq[i])
            i += 1
        return out
