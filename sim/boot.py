"""Process boot for simulated runs: import paths, stubs, clock/id seams.

Everything is taken from VERIF_REPO (default /repo) *as it is on disk now*;
nothing is installed or cached (PYTHONDONTWRITEBYTECODE) so every check run
rebuilds from the current working tree.
"""
from __future__ import annotations

import gc
import logging
import os
import sys
import types

VERIF = os.path.dirname(os.path.dirname(os.path.abspath(__file__)))
REPO = os.environ.get("VERIF_REPO", "/repo")

_PKG_SRC = [
    "packages/llama-index-workflows/src",
    "packages/llama-agents-server/src",
    "packages/llama-agents-client/src",
    "packages/llama-agents-core/src",
    "packages/llama-agents-dbos/src",
    "packages/llamactl/src",
]

_booted = False


def _shell(name: str, paths: list[str]) -> None:
    """Register a namespace shell so sub-modules import without running the
    package's __init__ (which imports uvicorn/starlette/etc.)."""
    if name in sys.modules:
        return
    m = types.ModuleType(name)
    m.__path__ = paths  # type: ignore[attr-defined]
    m.__package__ = name
    sys.modules[name] = m
    if "." in name:
        parent, _, child = name.rpartition(".")
        setattr(sys.modules[parent], child, m)


def boot() -> None:
    global _booted
    if _booted:
        return
    _booted = True
    sys.dont_write_bytecode = True
    from . import clock

    clock.install()  # before any repo import

    stubs = os.path.join(VERIF, "stubs")
    if stubs not in sys.path:
        sys.path.insert(0, stubs)
    for rel in _PKG_SRC:
        p = os.path.join(REPO, rel)
        if p not in sys.path:
            sys.path.insert(0, p)

    # llama_agents is a namespace spread over several src dirs; pre-register
    # shells so that package __init__ files with heavy deps never execute.
    la_paths = [os.path.join(REPO, rel, "llama_agents") for rel in _PKG_SRC]
    _shell("llama_agents", [p for p in la_paths if os.path.isdir(p)])
    for sub, rel in [
        ("server", "packages/llama-agents-server/src"),
        ("core", "packages/llama-agents-core/src"),
        ("dbos", "packages/llama-agents-dbos/src"),
        ("cli", "packages/llamactl/src"),
        ("client", "packages/llama-agents-client/src"),
    ]:
        d = os.path.join(REPO, rel, "llama_agents", sub)
        if os.path.isdir(d):
            _shell(f"llama_agents.{sub}", [d])
    logging.disable(logging.CRITICAL)
    import warnings

    warnings.simplefilter("ignore")
    gc.disable()


_id_counter = [0]


def reset_ids() -> None:
    _id_counter[0] = 0


def sim_nanoid(size: int = 10) -> str:
    _id_counter[0] += 1
    return f"id{_id_counter[0]:08d}"[:max(size, 10)]


def patch_ids() -> None:
    """Rebind id generators (module-level names) to a per-run counter."""
    import uuid

    import workflows.context.context as ctxmod

    ctxmod.nanoid = sim_nanoid
    if not getattr(uuid, "_verif_patched", False):
        def _uuid4():
            _id_counter[0] += 1
            return uuid.UUID(int=(0x5EED << 96) | _id_counter[0])

        uuid.uuid4 = _uuid4
        uuid._verif_patched = True  # type: ignore[attr-defined]


def patch_datetime(module_names: list[str]) -> None:
    """Rebind the name `datetime` (the class) in the given modules to a subclass whose now()/utcnow()
    read the simulated wall clock while a simulation is active."""
    import datetime as _dt
    import importlib

    from . import clock

    class SimDateTime(_dt.datetime):
        @classmethod
        def now(cls, tz=None):  # type: ignore[override]
            c = clock.ACTIVE
            if c is None:
                return _dt.datetime.now(tz)
            base = _dt.datetime.fromtimestamp(c.wall(), tz=tz or _dt.timezone.utc)
            return cls(base.year, base.month, base.day, base.hour, base.minute, base.second, base.microsecond, tzinfo=base.tzinfo if tz else None)

        @classmethod
        def utcnow(cls):  # type: ignore[override]
            return cls.now(_dt.timezone.utc).replace(tzinfo=None)

    for name in module_names:
        mod = importlib.import_module(name)
        if isinstance(getattr(mod, "datetime", None), type) and not getattr(mod.datetime, "_verif_sim", False):
            SimDateTime._verif_sim = True  # type: ignore[attr-defined]
            mod.datetime = SimDateTime     # type: ignore[attr-defined]
