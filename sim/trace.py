"""Run trace: (seq, t, kind, fields).  seq is the simulator's global event
sequence number (a total order; virtual time alone ties)."""
from __future__ import annotations

import hashlib
from typing import Any


class Trace:
    __slots__ = ("recs", "clock", "_seq")

    def __init__(self, clock) -> None:
        self.recs: list[tuple[int, float, str, dict]] = []
        self.clock = clock
        self._seq = 0

    def log(self, kind: str, /, **fields: Any) -> int:
        self._seq += 1
        self.recs.append((self._seq, self.clock.t, kind, fields))
        return self._seq

    @property
    def seq(self) -> int:
        return self._seq

    def of(self, *kinds: str):
        ks = set(kinds)
        return [r for r in self.recs if r[2] in ks]

    def digest(self) -> str:
        h = hashlib.sha256()
        for seq, t, kind, f in self.recs:
            h.update(f"{seq}|{t!r}|{kind}|".encode())
            for k in sorted(f):
                h.update(f"{k}={_stable(f[k])};".encode())
            h.update(b"\n")
        return h.hexdigest()

    def shape(self, keys=("step", "worker", "state", "exit", "ev")) -> str:
        """Abstract shape: kinds + selected fields, no times, no uids."""
        h = hashlib.sha256()
        for _, _, kind, f in self.recs:
            h.update(kind.encode())
            for k in keys:
                if k in f:
                    h.update(f"|{k}={f[k]}".encode())
            h.update(b"\n")
        return h.hexdigest()[:16]

    def excerpt(self, limit: int = 60) -> list[str]:
        out = []
        for seq, t, kind, f in self.recs[:limit]:
            out.append(f"{seq:4d} t={t:g} {kind} " + " ".join(f"{k}={_stable(v)}" for k, v in f.items()))
        if len(self.recs) > limit:
            out.append(f"... {len(self.recs) - limit} more")
        return out


def _stable(v: Any) -> str:
    if isinstance(v, float):
        return repr(v)
    if isinstance(v, (list, tuple)):
        return "[" + ",".join(_stable(x) for x in v) + "]"
    if isinstance(v, dict):
        return "{" + ",".join(f"{k}:{_stable(v[k])}" for k in sorted(v, key=str)) + "}"
    if isinstance(v, (set, frozenset)):
        return "{" + ",".join(sorted(_stable(x) for x in v)) + "}"
    return str(v)
