"""SQLite seam: every repo module reaches the database through the name `sqlite3`
in its own namespace; that name is rebound to a proxy whose connect() uses a
Connection subclass.  The subclass is the *real* sqlite3.Connection: it only
adds (a) a crash fence per incarnation, (b) commit counting per table as the
unit of durability, (c) injected OperationalErrors.

The stores themselves are the repo's classes, unmodified.
"""
from __future__ import annotations

import contextvars
import re
import sqlite3 as _real
import types
from typing import Any, Callable

INCARNATION: contextvars.ContextVar[int] = contextvars.ContextVar("verif_incarnation", default=0)


class SimCrashed(BaseException):
    """Raised by every database call of an incarnation whose process has 'died'."""


class Seam:
    def __init__(self) -> None:
        self.fenced: set[int] = set()
        self.commits: dict[str, int] = {}          # table -> committed transactions touching it (current incarnation)
        self.total_commits = 0
        self.crash_plan: dict | None = None        # {"table": str|None, "k": int, "inc": int}
        self.on_crash: Callable[[int], None] | None = None
        self.on_commit: Callable[[int, set], None] | None = None
        self.fault_plan: list[dict] = []           # [{"table":..., "verb":..., "n": remaining, "skip": k}]
        self.faults_fired: dict[str, int] = {}
        self.active = False

    def reset(self) -> None:
        self.__init__()

    # -- called by the connection -------------------------------------------------
    def pre(self, sql: str | None) -> None:
        if not self.active:
            return
        inc = INCARNATION.get()
        if inc in self.fenced:
            raise SimCrashed(f"incarnation {inc} is dead")
        if sql and self.fault_plan:
            verb, table = classify(sql)
            for f in self.fault_plan:
                if f["n"] > 0 and (f.get("table") in (None, table)) and (f.get("verb") in (None, verb)) and f.get("inc", inc) == inc:
                    if f.get("skip", 0) > 0:
                        f["skip"] -= 1
                        continue
                    f["n"] -= 1
                    key = f"store-write-error:{table or verb}"
                    self.faults_fired[key] = self.faults_fired.get(key, 0) + 1
                    raise _real.OperationalError("database is locked (injected)")

    def committed(self, tables: set) -> None:
        if not self.active:
            return
        inc = INCARNATION.get()
        self.total_commits += 1
        for t in tables:
            self.commits[t] = self.commits.get(t, 0) + 1
        if self.on_commit is not None:
            self.on_commit(inc, tables)
        p = self.crash_plan
        if p is not None and p.get("inc", inc) == inc and inc not in self.fenced:
            if p.get("table") is None:
                n = self.total_commits
                hit = bool(tables) or True
            else:
                n = self.commits.get(p["table"], 0)
                hit = p["table"] in tables
            if hit and n >= p["k"]:
                self.fenced.add(inc)
                self.crash_plan = None
                if self.on_crash is not None:
                    self.on_crash(inc)

    def crash_now(self, inc: int) -> None:
        self.fenced.add(inc)
        if self.on_crash is not None:
            self.on_crash(inc)


SEAM = Seam()

_DML = re.compile(r"^\s*(INSERT(?:\s+OR\s+\w+)?\s+INTO|UPDATE|DELETE\s+FROM|REPLACE\s+INTO|CREATE\s+TABLE(?:\s+IF\s+NOT\s+EXISTS)?|ALTER\s+TABLE)\s+([A-Za-z_][A-Za-z0-9_]*)", re.I)


def classify(sql: str) -> tuple[str, str | None]:
    m = _DML.match(sql)
    if m:
        return m.group(1).split()[0].upper(), m.group(2).lower()
    w = sql.strip().split(None, 1)
    return (w[0].upper() if w else ""), None


class SimCursor(_real.Cursor):
    def execute(self, sql, *a):  # type: ignore[override]
        SEAM.pre(sql)
        self.connection._note(sql)          # type: ignore[attr-defined]
        return super().execute(sql, *a)

    def executemany(self, sql, *a):  # type: ignore[override]
        SEAM.pre(sql)
        self.connection._note(sql)          # type: ignore[attr-defined]
        return super().executemany(sql, *a)

    def executescript(self, script):  # type: ignore[override]
        SEAM.pre(script)
        r = super().executescript(script)
        return r

    def fetchone(self):  # type: ignore[override]
        SEAM.pre(None)
        return super().fetchone()

    def fetchall(self):  # type: ignore[override]
        SEAM.pre(None)
        return super().fetchall()


class SimConnection(_real.Connection):
    def __init__(self, *a: Any, **k: Any) -> None:
        super().__init__(*a, **k)
        self._dirty: set = set()

    def _note(self, sql: str) -> None:
        verb, table = classify(sql)
        if table is not None:
            self._dirty.add(table)
        elif verb == "COMMIT":
            d, self._dirty = self._dirty, set()
            SEAM.committed(d)

    def cursor(self, factory=SimCursor):  # type: ignore[override]
        SEAM.pre(None)
        return super().cursor(factory)

    def execute(self, sql, *a):  # type: ignore[override]
        SEAM.pre(sql)
        r = super().execute(sql, *a)
        self._note(sql)
        return r

    def executemany(self, sql, *a):  # type: ignore[override]
        SEAM.pre(sql)
        r = super().executemany(sql, *a)
        self._note(sql)
        return r

    def executescript(self, script):  # type: ignore[override]
        SEAM.pre(script)
        return super().executescript(script)

    def commit(self):  # type: ignore[override]
        SEAM.pre("COMMIT")
        super().commit()
        d, self._dirty = self._dirty, set()
        SEAM.committed(d)

    def rollback(self):  # type: ignore[override]
        self._dirty = set()
        return super().rollback()

    def __exit__(self, et, ev, tb):  # type: ignore[override]
        # `with conn:` commits at C level without calling a Python commit() override
        if et is None:
            SEAM.pre("COMMIT")
        r = super().__exit__(et, ev, tb)
        d, self._dirty = self._dirty, set()
        if et is None:
            SEAM.committed(d)
        return r


def _connect(database, *a: Any, **k: Any):
    SEAM.pre(None)
    k.setdefault("factory", SimConnection)
    return _real.connect(database, *a, **k)


def make_proxy() -> types.ModuleType:
    m = types.ModuleType("sqlite3")
    for name in dir(_real):
        if not name.startswith("__"):
            setattr(m, name, getattr(_real, name))
    m.connect = _connect        # type: ignore[attr-defined]
    m.Connection = SimConnection  # type: ignore[attr-defined]
    m.Cursor = SimCursor          # type: ignore[attr-defined]
    return m


_installed: list[str] = []


def install(module_names: list[str]) -> None:
    """Rebind the name `sqlite3` in the given (already imported) modules."""
    import importlib
    proxy = make_proxy()
    for name in module_names:
        mod = importlib.import_module(name)
        if getattr(mod, "sqlite3", None) is not None and not getattr(mod.sqlite3, "_verif_proxy", False):
            proxy._verif_proxy = True      # type: ignore[attr-defined]
            mod.sqlite3 = proxy            # type: ignore[attr-defined]
            _installed.append(name)
