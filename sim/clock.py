"""Virtual clocks.  One elapsed time `t`; monotonic and wall clocks have
different origins (as on every real machine) and the wall clock can be stepped.

The patched `time.time` / `time.monotonic` read the active SimClock when a
simulation is running in this process and fall through to the real clock
otherwise (pool management, evidence writing and wall budgets keep real time).
"""
from __future__ import annotations

import time as _time

REAL_TIME = _time.time
REAL_MONOTONIC = _time.monotonic
REAL_PERF = _time.perf_counter


class SimClock:
    __slots__ = ("t", "mono0", "wall0", "wall_skew")

    def __init__(self, mono0: float = 1000.0, wall0: float = 1_790_000_000.0) -> None:
        self.t = 0.0
        self.mono0 = mono0
        self.wall0 = wall0
        self.wall_skew = 0.0

    def monotonic(self) -> float:
        return self.mono0 + self.t

    def wall(self) -> float:
        return self.wall0 + self.wall_skew + self.t


ACTIVE: SimClock | None = None


def set_active(clock: SimClock | None) -> None:
    global ACTIVE
    ACTIVE = clock


def _time_time() -> float:
    c = ACTIVE
    return c.wall() if c is not None else REAL_TIME()


def _time_monotonic() -> float:
    c = ACTIVE
    return c.monotonic() if c is not None else REAL_MONOTONIC()


def install() -> None:
    """Replace time.time / time.monotonic process-wide (idempotent).

    Must run before any repo module is imported: some bind the functions as
    default arguments at import.
    """
    if getattr(_time, "_verif_patched", False):
        return
    _time.time = _time_time
    _time.monotonic = _time_monotonic
    _time._verif_patched = True  # type: ignore[attr-defined]
