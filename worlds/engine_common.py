"""Shared glue: run one generated program on W-ENGINE and package the result."""
from __future__ import annotations

import os

from typing import Any, Callable

from sim.loop import SimCap, SimDeadlock

from .engine import EngineWorld, drive_standard, gen_spec


def simulate(tape, cfg: dict[str, Any], check: Callable, *, gen=gen_spec, scenario=drive_standard,
             setup: Callable | None = None, nontrivial: Callable | None = None, check_on_cap: bool = False,
             want_trace: bool = False, world_cls=None) -> dict:
    import os as _os
    want_trace = want_trace or bool(_os.environ.get("VERIF_WANT_TRACE"))
    world = (world_cls or EngineWorld)(tape, cfg)
    harness = None
    spec = None
    outcome = None
    try:
        spec = gen(tape, world.cfg)
        if setup is not None:
            setup(world, spec)
        try:
            outcome = world.loop.run_sim(scenario(world, spec))
        except SimCap as e:
            harness = f"cap: {e}"
        except SimDeadlock as e:
            harness = f"deadlock: {e}"
        if harness is None:
            check(world, spec, outcome)
        elif check_on_cap and harness.startswith("cap"):
            # the partial trace is still a real execution prefix: safety rules may be judged on it
            try:
                check(world, spec, {"capped": True})
            except Exception:  # noqa: BLE001
                pass
            if world.violations:
                harness = None
        nt = bool(nontrivial(world, spec, outcome)) if (nontrivial and harness is None) else False
        res = {
            "violations": world.violations,
            "harness": harness,
            "nontrivial": nt,
            "shape": world.trace.shape(),
            "faults": dict(world.faults),
            "probes": dict(world.probes),
            "sim_time": world.clock.t,
            "steps": world.loop.steps,
            "digest": world.trace.digest(),
            "states": list(world.states),
            "evals": getattr(world, "_evals", 1) or 1,
        }
        for k, v in world.loop.stats.items():
            if k in ("timer_ties", "executor_jobs") and v:
                res["faults"][k] = res["faults"].get(k, 0) + v
        if nt or world.violations or want_trace:
            res["sample"] = {"program": _compact(spec), "trace_excerpt": world.trace.excerpt(40)}
        if world.violations or want_trace:
            res["trace_excerpt"] = world.trace.excerpt(int(os.environ.get("VERIF_TRACE_LIMIT", "400")))
        return res
    finally:
        world.close()


def _compact(spec: dict | None) -> Any:
    if spec is None:
        return None
    out = {k: v for k, v in spec.items() if k != "steps"}
    out["steps"] = [{k: v for k, v in s.items() if v not in (None, False, [], {})} for s in spec["steps"]]
    return out
