"""Derived observations over a W-ENGINE trace, shared by monitors."""
from __future__ import annotations

from typing import Any


def retry_windows(recs) -> list[tuple[int, int, str, Any]]:
    """(seq_failed_tick, seq_retry_add_tick, step, uid) for every retry that was really scheduled
    (the re-delivery tick with attempts>=1 was later observed)."""
    pend: dict[tuple, list[int]] = {}
    out = []
    for seq, t, kind, f in recs:
        if kind != "tick":
            continue
        if f["tick"] == "step_result" and any(r[0] == "failed" for r in f["res"]):
            pend.setdefault((f["step"], _h(f["uid"])), []).append(seq)
        elif f["tick"] == "add_event" and (f.get("attempts") or 0) >= 1 and f.get("target"):
            key = (f["target"], _h(f["uid"]))
            if pend.get(key):
                out.append((pend[key].pop(0), seq, key[0], key[1]))
    return out


def delivery_windows(recs) -> list[tuple[int, int, Any]]:
    """(seq_deliver, seq_tick, uid) for every send_event that reached an adapter and whose tick was
    later processed."""
    pend: dict[Any, list[int]] = {}
    out = []
    for seq, t, kind, f in recs:
        if kind == "deliver" and f.get("tick") == "add_event":
            pend.setdefault(_h(f["uid"]), []).append(seq)
        elif kind == "tick" and f["tick"] == "add_event" and not (f.get("attempts") or 0):
            k = _h(f["uid"])
            if pend.get(k):
                out.append((pend[k].pop(0), seq, k))
    return out


def _h(u: Any) -> Any:
    return tuple(u) if isinstance(u, list) else u
