"""Retry-policy specs (plain data) -> real policy objects, plus an independent
reference evaluation of the documented semantics (not a call into
retry_policy.py) used by C05/C06 oracles."""
from __future__ import annotations

import functools
from typing import Any

from workflows import retry_policy as rp

from .events import EXCS


def _use_operators(spec) -> bool:
    """spell every second combinator with the overloaded operators instead of the named function (a function of the spec, so no
    tape draw is spent on it)"""
    return sum(map(ord, repr(spec))) % 2 == 0


def build_wait(w):
    k = w[0]
    if k == "fixed":
        return rp.wait_fixed(w[1])
    if k == "none":
        return rp.wait_none()
    if k == "chain":
        return rp.wait_chain(*[build_wait(x) for x in w[1]])
    if k == "exp":
        return rp.wait_exponential(multiplier=w[1], exp_base=w[2], max=w[3], min=w[4])
    if k == "inc":
        return rp.wait_incrementing(start=w[1], increment=w[2], max=w[3])
    if k == "random":
        return rp.wait_random(min=w[1], max=w[2])
    if k == "expjitter":
        return rp.wait_exponential_jitter(initial=w[1], max=w[2], exp_base=w[3], jitter=w[4])
    if k == "randexp":
        return rp.wait_random_exponential(multiplier=w[1], max=w[2], exp_base=w[3], min=w[4])
    if k == "combine":
        return rp.wait_combine(*[build_wait(x) for x in w[1]])
    raise ValueError(w)


def build_stop(s):
    k = s[0]
    if k == "attempt":
        return rp.stop_after_attempt(s[1])
    if k == "delay":
        if len(s) > 2 and s[2] == "timedelta":
            import datetime
            return rp.stop_after_delay(datetime.timedelta(seconds=s[1]))
        return rp.stop_after_delay(s[1])
    if k == "before_delay":
        return rp.stop_before_delay(s[1])
    if k in ("any", "all"):
        parts = [build_stop(x) for x in s[1]]
        if _use_operators(s) and len(parts) >= 2:
            # the same condition spelled with the overloaded operators: (a & b) | c etc.
            return functools.reduce((lambda a, b: a | b) if k == "any" else (lambda a, b: a & b), parts)
        return rp.stop_any(*parts) if k == "any" else rp.stop_all(*parts)
    if k == "never":
        return rp.stop_never()
    raise ValueError(s)


class PredicateBoom(Exception):
    pass


def build_retry(r):
    if r is None:
        return None
    k = r[0]
    if k == "type":
        return rp.retry_if_exception_type(tuple(EXCS[n] for n in r[1]))
    if k == "not_type":
        return rp.retry_if_not_exception_type(tuple(EXCS[n] for n in r[1]))
    if k == "msg":
        return rp.retry_if_exception_message(match=r[1])
    if k == "always":
        return rp.retry_always()
    if k == "never":
        return rp.retry_never()
    if k in ("any", "all"):
        parts = [build_retry(x) for x in r[1]]
        if _use_operators(r) and len(parts) >= 2:
            return functools.reduce((lambda a, b: a | b) if k == "any" else (lambda a, b: a & b), parts)
        return rp.retry_any(*parts) if k == "any" else rp.retry_all(*parts)
    if k == "raises":
        def boom(e):
            raise PredicateBoom("retry predicate raised")
        return rp.retry_if_exception(boom)
    raise ValueError(r)


import dataclasses as _dc


@_dc.dataclass
class UserPolicy:
    """a user-written RetryPolicy (the Protocol only asks for next()): a plain dataclass, hence unhashable, and without the
    optional `seed` keyword"""
    inner: Any

    def next(self, elapsed_time: float, attempts: int, error: Exception) -> float | None:
        return self.inner.next(elapsed_time, attempts, error)


@_dc.dataclass
class UserPolicySeed:
    inner: Any

    def next(self, elapsed_time: float, attempts: int, error: Exception, *, seed: int | None = None) -> float | None:
        return self.inner.next(elapsed_time, attempts, error, seed=seed)


def build_policy(p):
    if p is None:
        return None
    if p.get("legacy") == "const":
        return rp.ConstantDelayRetryPolicy(maximum_attempts=p["n"], delay=p["delay"])
    pol = rp.retry_policy(retry=build_retry(p.get("retry")), wait=build_wait(p["wait"]),
                          stop=build_stop(p["stop"]))
    if p.get("user") == "plain":
        return UserPolicy(pol)
    if p.get("user") == "seed":
        return UserPolicySeed(pol)
    return pol


# ---------------------------------------------------------------------------
# Reference semantics (from the property statements and the docstrings).
# k = index of the retry about to happen, k = 1 for the first retry, which
# follows the first failure.


def ref_wait_lower_bound(w, k: int) -> float:
    """Documented delay (or documented lower bound) before the k-th retry."""
    t = w[0]
    if t == "fixed":
        return float(w[1])
    if t == "none":
        return 0.0
    if t == "chain":
        lst = w[1]
        return ref_wait_lower_bound(lst[min(k, len(lst)) - 1], k)
    if t == "exp":
        mult, base, mx, mn = w[1], w[2], w[3], w[4]
        return max(max(0.0, mn), min(mult * base ** (k - 1), mx))
    if t == "inc":
        start, inc, mx = w[1], w[2], w[3]
        return max(0.0, min(start + inc * (k - 1), mx))
    if t == "random":
        return float(w[1])
    if t == "expjitter":
        initial, mx, base = w[1], w[2], w[3]
        return max(0.0, min(initial * base ** (k - 1), mx))
    if t == "randexp":
        return max(0.0, float(w[4]))
    if t == "combine":
        return sum(ref_wait_lower_bound(x, k) for x in w[1])
    raise ValueError(w)


def ref_wait_exact(w, k: int) -> float | None:
    """Exact documented delay when the strategy is deterministic, else None."""
    t = w[0]
    if t in ("fixed", "none", "exp", "inc"):
        return ref_wait_lower_bound(w, k)
    if t == "chain":
        lst = w[1]
        return ref_wait_exact(lst[min(k, len(lst)) - 1], k)
    if t == "combine":
        parts = [ref_wait_exact(x, k) for x in w[1]]
        return None if any(p is None for p in parts) else sum(parts)
    return None


def ref_wait_range(w, k: int):
    """(lo, hi) of the documented delay before the k-th retry for strategies whose randomness is a plain bounded term; None for
    the jittered exponential families"""
    t = w[0]
    if t in ("fixed", "none", "exp", "inc"):
        x = ref_wait_lower_bound(w, k)
        return (x, x)
    if t == "random":
        return (float(w[1]), float(w[2]))
    if t == "chain":
        lst = w[1]
        return ref_wait_range(lst[min(k, len(lst)) - 1], k)
    if t == "combine":
        parts = [ref_wait_range(x, k) for x in w[1]]
        if any(p is None for p in parts):
            return None
        return (sum(p[0] for p in parts), sum(p[1] for p in parts))
    return None


def ref_stop(s, attempts: int, elapsed: float, upcoming: float | None) -> bool | None:
    """Should the policy stop after `attempts` executions, `elapsed` seconds after
    the first attempt started?  None = undecidable here (boundary / unknown sleep)."""
    k = s[0]
    if k == "attempt":
        return attempts >= max(s[1], 1) if s[1] >= 1 else True
    if k == "delay":
        if abs(elapsed - s[1]) < 1e-9:
            return None
        return elapsed >= s[1]
    if k == "before_delay":
        if upcoming is None:
            return None
        if abs(elapsed + upcoming - s[1]) < 1e-9:
            return None
        return elapsed + upcoming >= s[1]
    if k == "never":
        return False
    if k in ("any", "all"):
        vals = [ref_stop(x, attempts, elapsed, upcoming) for x in s[1]]
        if k == "any":
            if any(v is True for v in vals):
                return True
            return None if any(v is None for v in vals) else False
        if any(v is False for v in vals):
            return False
        return None if any(v is None for v in vals) else True
    raise ValueError(s)


def ref_retryable(r, exc: BaseException) -> bool | None:
    if r is None:
        return True
    k = r[0]
    if k == "type":
        return isinstance(exc, tuple(EXCS[n] for n in r[1]))
    if k == "not_type":
        return not isinstance(exc, tuple(EXCS[n] for n in r[1]))
    if k == "msg":
        import re
        return re.search(r[1], str(exc)) is not None
    if k == "always":
        return True
    if k == "never":
        return False
    if k == "any":
        vals = [ref_retryable(x, exc) for x in r[1]]
        return None if any(v is None for v in vals) else any(vals)
    if k == "all":
        vals = [ref_retryable(x, exc) for x in r[1]]
        return None if any(v is None for v in vals) else all(vals)
    if k == "raises":
        return None
    raise ValueError(r)


def gen_policy(tape, cfg: dict[str, Any]) -> dict | None:
    """Small random policy; waits on the coarse grid so retries tie/overtake."""
    mode = cfg.get("policy_mode", "simple")
    if mode == "simple":
        n = tape.rng_int(1, 4, "pol.n")
        d = tape.choice(cfg.get("retry_delays", [0, 0, 1, 2]), "pol.d")
        pol = {"retry": None, "wait": ("fixed", d) if d else ("none",), "stop": ("attempt", n)}
        if cfg.get("p_user_policy") and tape.chance(cfg["p_user_policy"], 100, "pol.user"):
            pol["user"] = tape.choice(["plain", "seed"], "pol.user.kind")
        return pol
    raise ValueError(mode)
