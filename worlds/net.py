"""W-NET: the real WorkflowClient talking to the real _WorkflowAPI endpoints over a simulated wire.

Real: llama_agents.client.WorkflowClient (httpx.AsyncClient request building, response/line/text decoding, the reconnect
      loop), _WorkflowAPI endpoint coroutines (_stream_events / format_stream, _resolve_event_stream, _post_event,
      _run_workflow_nowait, ...), _WorkflowService, the stores, the runtime stack.
Stub: starlette (routing table, Request, Response classes: /verif/stubs/starlette), uvicorn/h11 (there is no HTTP/1.1
      byte framing: the wire carries the response *body* bytes; a broken connection surfaces to the client as the
      httpx transport exceptions httpcore would raise: ConnectError, ReadError, RemoteProtocolError).
Sim:  SimTransport (an httpx.AsyncBaseTransport): per connection the tape decides connect failures, latency, how the
      body is fragmented into reads, and the byte offset at which the connection is cut; the server-side generator is
      pumped by a task in the server incarnation's context and is closed when the client goes away.
"""
from __future__ import annotations

import asyncio
from typing import Any
from urllib.parse import parse_qsl

from sim import boot

from .server import ServerWorld

boot.boot()

import httpx  # noqa: E402
from llama_agents.server import _api as api_mod  # noqa: E402
from starlette.exceptions import HTTPException  # noqa: E402
from starlette.requests import Request  # noqa: E402
from starlette.responses import StreamingResponse  # noqa: E402

api_mod.nanoid = boot.sim_nanoid

T = 1.0 / 1024
_EOF = object()


class ConnPlan:
    """what the wire does to ONE connection (decided when the connection is opened)"""
    __slots__ = ("connect_fault", "latency", "cut_chunk", "cut_where", "cut_exc", "frag")

    def __init__(self) -> None:
        self.connect_fault: str | None = None
        self.latency = 0.0
        self.cut_chunk: int | None = None   # index of the body chunk (SSE frame) in which the connection is cut
        self.cut_where = "frame-start"
        self.cut_exc = "ReadError"
        self.frag = 0                       # 0: whole chunks, 1: split each chunk at a tape-chosen offset, 2: byte-wise around newlines


CUT_WHERE = ["frame-start", "in-id", "after-id-line", "in-data-early", "in-data-late", "after-data-line", "frame-end"]


def cut_offset(chunk: bytes, where: str, tape) -> int:
    """byte offset inside one `id: N\\ndata: {...}\\n\\n` frame"""
    n = len(chunk)
    nl1 = chunk.find(b"\n")
    if chunk.startswith(b":") or nl1 < 0:            # heartbeat comment or foreign chunk
        return {"frame-start": 0, "frame-end": n}.get(where, tape.draw(n + 1, "cut.off"))
    nl2 = chunk.find(b"\n", nl1 + 1)
    if where == "frame-start":
        return 0
    if where == "in-id":
        return 1 + tape.draw(max(1, nl1 - 1), "cut.off")
    if where == "after-id-line":
        return nl1 + 1
    if where == "in-data-early":
        return min(n, nl1 + 2 + tape.draw(8, "cut.off"))
    if where == "in-data-late":
        return max(nl1 + 1, nl2 - tape.draw(8, "cut.off"))
    if where == "after-data-line":
        return nl2 + 1 if nl2 >= 0 else n
    return n


class SimByteStream(httpx.AsyncByteStream):
    def __init__(self, tr: "SimTransport", conn: int, plan: ConnPlan, wire: asyncio.Queue, pump: asyncio.Task) -> None:
        self.tr, self.conn, self.plan, self.wire, self.pump = tr, conn, plan, wire, pump
        self.closed = False

    async def __aiter__(self):
        tr, plan, w = self.tr, self.plan, self.tr.world
        k = 0
        try:
            while True:
                item = await self.wire.get()
                if item is _EOF:
                    w.trace.log("net-eof", conn=self.conn)
                    return
                if isinstance(item, BaseException):
                    # the server-side generator failed: the response is truncated
                    w.trace.log("net-server-error", conn=self.conn, exc=type(item).__name__)
                    raise httpx.RemoteProtocolError("peer closed connection without sending complete message body")
                data = item.encode("utf-8") if isinstance(item, str) else bytes(item)
                cut = None
                if data.startswith(b":"):
                    w.probe("heartbeat-seen")
                if plan.cut_chunk is not None and k == plan.cut_chunk:
                    cut = cut_offset(data, plan.cut_where, w.tape)
                k += 1
                if plan.latency:
                    await asyncio.sleep(plan.latency)
                pieces = self._fragment(data if cut is None else data[:cut])
                for p in pieces:
                    if p:
                        yield p
                if cut is not None:
                    w.fault("conn-cut:" + plan.cut_where)
                    w.trace.log("net-cut", conn=self.conn, chunk=k - 1, where=plan.cut_where, off=cut, of=len(data), exc=plan.cut_exc)
                    tr.note_failure(self.conn, "cut")
                    await self._stop_pump()
                    raise getattr(httpx, plan.cut_exc)("connection lost (injected)")
        finally:
            await self._stop_pump()

    def _fragment(self, data: bytes) -> list[bytes]:
        plan, tape = self.plan, self.tr.world.tape
        if not data or plan.frag == 0:
            return [data]
        if plan.frag == 1:
            o = tape.draw(len(data) + 1, "frag.off")
            self.tr.world.fault("fragmented-read")
            return [data[:o], data[o:]]
        # byte-wise around every newline and inside multi-byte characters
        out, cur = [], bytearray()
        for b in data:
            cur.append(b)
            if b == 0x0A or b >= 0x80:
                out.append(bytes(cur))
                cur = bytearray()
        if cur:
            out.append(bytes(cur))
        self.tr.world.fault("fragmented-read")
        return out

    async def _stop_pump(self) -> None:
        if self.closed:
            return
        self.closed = True
        if not self.pump.done():
            self.pump.cancel()
            try:
                await self.pump
            except BaseException:  # noqa: BLE001
                pass

    async def aclose(self) -> None:
        await self._stop_pump()


class SimTransport(httpx.AsyncBaseTransport):
    """the only network the client sees"""

    def __init__(self, world: "NetWorld", inc, api, planner) -> None:
        self.world, self.inc, self.api, self.planner = world, inc, api, planner
        self.conns = 0
        self.log: list[dict] = []          # per connection: {"conn", "path", "outcome"}

    def note_failure(self, conn: int, what: str) -> None:
        self.log[conn - 1]["outcome"] = what

    async def handle_async_request(self, request: httpx.Request) -> httpx.Response:
        w = self.world
        self.conns += 1
        conn = self.conns
        path = request.url.path
        query = parse_qsl(request.url.query.decode("ascii"), keep_blank_values=True)
        rec = {"conn": conn, "method": request.method, "path": path, "query": dict(query), "outcome": "ok"}
        self.log.append(rec)
        plan: ConnPlan = self.planner(conn, request.method, path, dict(query))
        w.trace.log("net-connect", conn=conn, method=request.method, path=path, after=dict(query).get("after_sequence"), fault=plan.connect_fault)
        body = await request.aread()
        if plan.connect_fault:
            w.fault("connect-fault:" + plan.connect_fault)
            rec["outcome"] = "connect-fault"
            if plan.latency:
                await asyncio.sleep(plan.latency)
            raise getattr(httpx, plan.connect_fault)("injected", request=request)
        if plan.latency:
            await asyncio.sleep(plan.latency)
        endpoint, params = None, None
        for r in self.api.app.routes:
            params = r.match(request.method, path)
            if params is not None:
                endpoint = r.endpoint
                break
        if endpoint is None:
            return httpx.Response(404, json={"detail": "Not Found"}, request=request)
        req = Request(request.method, path, params, query, list(request.headers.items()), body)

        async def call():
            try:
                return await endpoint(req)
            except HTTPException as e:
                return e
        resp = await self.inc.spawn(call())
        if isinstance(resp, HTTPException):
            rec["status"] = resp.status_code
            w.trace.log("net-response", conn=conn, status=resp.status_code)
            if resp.status_code == 204:
                return httpx.Response(204, request=request)
            return httpx.Response(resp.status_code, json={"detail": resp.detail}, request=request)
        rec["status"] = resp.status_code
        w.trace.log("net-response", conn=conn, status=resp.status_code, streaming=isinstance(resp, StreamingResponse))
        if isinstance(resp, StreamingResponse):
            wire: asyncio.Queue = asyncio.Queue()
            gen = resp.body_iterator

            async def pump():
                try:
                    async for chunk in gen:
                        wire.put_nowait(chunk)
                    wire.put_nowait(_EOF)
                except asyncio.CancelledError:
                    raise
                except Exception as e:  # noqa: BLE001
                    wire.put_nowait(e)
                finally:
                    await gen.aclose()
            task = self.inc.spawn(pump())
            return httpx.Response(resp.status_code, headers={"content-type": resp.media_type or "application/octet-stream"},
                                  stream=SimByteStream(self, conn, plan, wire, task), request=request)
        return httpx.Response(resp.status_code, headers={"content-type": resp.media_type or "application/json"}, content=resp.body, request=request)


class NetWorld(ServerWorld):
    def __init__(self, tape, cfg: dict[str, Any]) -> None:
        super().__init__(tape, cfg)
        self.transports: list[SimTransport] = []
        self.http_clients: list[httpx.AsyncClient] = []

    def make_api(self, inc, **kw):
        return inc.ctx.run(lambda: api_mod._WorkflowAPI(inc.service, **kw))

    def make_client(self, inc, api, planner):
        from llama_agents.client.client import WorkflowClient
        tr = SimTransport(self, inc, api, planner)
        hc = httpx.AsyncClient(transport=tr, base_url="http://sim", trust_env=False)
        self.transports.append(tr)
        self.http_clients.append(hc)
        return WorkflowClient(httpx_client=hc), tr, hc

    def close(self) -> None:
        self.transports.clear()
        self.http_clients.clear()
        super().close()
