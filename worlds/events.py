"""Module-level event classes used by generated workflows (module-level so that
qualified-name (de)serialisation works)."""
from __future__ import annotations

from typing import Any

from workflows.events import (
    Event,
    HumanResponseEvent,
    InputRequiredEvent,
    StartEvent,
    StopEvent,
)


class Start0(StartEvent):
    uid: int = 0
    path: str = "r"


class _U(Event):
    uid: int = -1
    parent: int = -1
    src: str = ""
    path: str = ""


class E0(_U):
    pass


class E1(_U):
    pass


class E2(_U):
    pass


class E3(_U):
    pass


class E4(_U):
    pass


class E5(_U):
    pass


class E6(_U):
    pass


class E7(_U):
    pass


class E0s(E0):
    """Subclass of an event type that steps may accept (exact-type routing probe)."""


class E1s(E1):
    pass


class E2s(E2):
    pass


class _V(_U):
    """Value-equal events.  uid/parent/src/path are this harness's instrumentation; a user's events carry nothing of the
    kind, and two of them with the same payload (two `Vote(choice="yes")`) compare equal under pydantic's `==`.  Events of
    these types have no payload beyond the instrumentation, so any two of one type are equal; identity stays with `uid`."""

    def __eq__(self, other: Any) -> bool:
        return type(other) is type(self)

    __hash__ = None  # type: ignore[assignment]


class E0v(_V):
    pass


class E1v(_V):
    pass


class E2v(_V):
    pass


class E0x(E0):
    """Subclass of E0 that no generated step accepts."""


class X0(_U):
    """Never accepted by any generated step (unhandled-event probe)."""


class Prog(_U):
    """Stream-only progress event."""


class Resp0(HumanResponseEvent):
    uid: int = -1
    parent: int = -1
    src: str = ""
    key: str = ""


class Resp1(HumanResponseEvent):
    uid: int = -1
    parent: int = -1
    src: str = ""
    key: str = ""


class Fin(HumanResponseEvent):
    uid: int = -1
    parent: int = -1
    src: str = ""
    path: str = ""


class Ask0(InputRequiredEvent):
    uid: int = -1
    parent: int = -1
    src: str = ""
    key: str = ""


class Stop1(StopEvent):
    uid: int = -1
    payload: Any = None


TYPES = {c.__name__: c for c in [Start0, E0, E1, E2, E3, E4, E5, E6, E7, E0s, E1s, E2s, E0v, E1v, E2v, E0x, X0, Prog,
                                 Resp0, Resp1, Fin, Ask0, Stop1]}
TYPES["StopEvent"] = StopEvent


class SimStepError(Exception):
    pass


class SimOtherError(Exception):
    pass


class SimApiError(Exception):
    """Shaped like many SDK errors: the constructor takes (status, body) while .args holds the formatted message, so
    copy.deepcopy / pickle cannot rebuild an instance (cls(*args) raises TypeError)."""

    def __init__(self, status: int, body: str) -> None:
        super().__init__(f"{status}: {body}")
        self.status, self.body = status, body

    @classmethod
    def from_msg(cls, msg: str) -> "SimApiError":
        return cls(503, msg)


def make_exc(name: str, msg: str) -> BaseException:
    cls = EXCS[name]
    return cls.from_msg(msg) if hasattr(cls, "from_msg") else cls(msg)


EXCS = {"SimApiError": SimApiError, "ValueError": ValueError, "KeyError": KeyError, "RuntimeError": RuntimeError,
        "SimStepError": SimStepError, "SimOtherError": SimOtherError,
        "TimeoutError": TimeoutError}
