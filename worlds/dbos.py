"""W-DBOS: the repository's DBOS runtime on an EMULATED dbos package (see /verif/stubs/dbos/__init__.py for the contract).

Real: llama_agents.dbos.runtime (DBOSRuntime.register/launch/run_workflow, InternalDBOSAdapter incl. the journal-directed
      wait_for_next_task, ExternalDBOSAdapter), journal.task_journal / journal.crud (SqliteJournalCrud on the real file),
      journal.lifecycle, idle_release, SqliteStateStore, SqliteWorkflowStore, the SQLite migrations of both packages, the engine.
Emulated: dbos (workflow/step/recv/send/streams/recovery on the same SQLite file).  Name-only stubs: sqlalchemy, asyncpg.
Sim:  loop, clocks, SQLite seam (crash fence + commit counting, which now also covers the emulator's tables), incarnations.
"""
from __future__ import annotations

import asyncio
import contextvars
import gc
from typing import Any

from sim import boot, sqlite_seam
from sim.sqlite_seam import INCARNATION, SEAM

from .engine import EngineWorld, SimRuntime, build_workflow
from .server import IncTrace
from .stores import TmpDir

boot.boot()

import dbos as dbos_emulator  # noqa: E402  (the emulator in /verif/stubs)
from dbos import DBOS  # noqa: E402
from llama_agents.dbos.runtime import DBOSRuntime  # noqa: E402

_SQL_MODULES = [
    "llama_agents.dbos.runtime",
    "llama_agents.dbos.journal.crud",
    "llama_agents.dbos.journal.lifecycle",
    "llama_agents.server._store.sqlite.sqlite_workflow_store",
    "llama_agents.server._store.sqlite.sqlite_state_store",
]
sqlite_seam.install(_SQL_MODULES)
boot.patch_datetime(["llama_agents.dbos.idle_release", "llama_agents.dbos.journal.lifecycle",
                     "llama_agents.server._store.sqlite.sqlite_state_store", "llama_agents.server._store.sqlite.sqlite_workflow_store"])


class DbosIncarnation:
    """one 'process': an emulated DBOS instance + DBOSRuntime + everything they spawn, in one contextvars.Context"""

    def __init__(self, world: "DbosWorld", n: int, executor_id: str = "exec-1", server_chain: bool = False) -> None:
        self.world, self.n, self.executor_id = world, n, executor_id
        self.ctx = contextvars.copy_context()
        self.ctx.run(INCARNATION.set, n)
        self.tasks: list[asyncio.Task] = []
        self.workflows: dict[str, Any] = {}
        self.server_chain = server_chain
        self.ctx.run(self._build)

    def _build(self) -> None:
        w = self.world
        DBOS(config={"name": "sim", "system_database_url": f"sqlite+pysqlite:///{w.tmp.db()}?check_same_thread=false",
                     "executor_id": self.executor_id, "run_admin_server": False})
        self.runtime = DBOSRuntime(polling_interval_sec=w.cfg.get("polling_interval", 0.25))
        inner = self.runtime.build_server_runtime(idle_timeout=w.cfg.get("idle_timeout", 60.0)) if self.server_chain else self.runtime
        self.chain = inner
        if self.server_chain:
            # what WorkflowServer(runtime=dbos_runtime.build_server_runtime(), workflow_store=dbos_runtime.create_workflow_store()) assembles
            from llama_agents.server._runtime.server_runtime import ServerRuntimeDecorator
            from llama_agents.server._service import _WorkflowService
            self.store = self.runtime.create_workflow_store()
            self.server_rt = ServerRuntimeDecorator(inner, store=self.store, persistence_backoff=list(w.cfg.get("persistence_backoff", [0.5, 3])))
            self.outer = SimRuntime(w, inner=self.server_rt)
            self.service = _WorkflowService(runtime=self.server_rt, store=self.store)
            # observation only: when a resume of a released run starts, ends, or raises (the service sends through a fire-and-forget
            # task, so the exception is visible nowhere else)
            orig_resume = inner._do_resume

            async def observed_resume(run_id, pending_tick=None):
                import re
                w.trace.log("dbos-resume", run=run_id, pending=type(getattr(pending_tick, "event", None)).__name__ if pending_tick is not None else None,
                            uid=getattr(getattr(pending_tick, "event", None), "uid", None))
                try:
                    r = await orig_resume(run_id, pending_tick=pending_tick)
                    w.trace.log("dbos-resumed", run=run_id, uid=getattr(getattr(pending_tick, "event", None), "uid", None))
                    return r
                except Exception as e:  # noqa: BLE001
                    w.trace.log("reload-error", exc=type(e).__name__, msg=re.sub(r"\d+", "N", str(e))[:100], run=run_id)
                    raise
            inner._do_resume = observed_resume
            return
        self.outer = SimRuntime(w, inner=inner)

    def add_workflow(self, name: str, spec: dict, **kw: Any):
        wf = self.ctx.run(lambda: build_workflow(spec, self.world, runtime=self.outer, workflow_name=name, **kw))
        self.workflows[name] = wf
        return wf

    def spawn(self, coro) -> asyncio.Task:
        return self.world.loop.create_task(coro, context=self.ctx)

    async def call(self, coro) -> Any:
        return await self.spawn(coro)

    async def launch(self) -> None:
        await self.call(self.outer.launch() if hasattr(self.outer, "launch") else self.runtime.launch())

    async def start(self) -> None:
        """server chain: start the service (which launches the runtime stack, DBOS included)"""
        await self.call(self.service.start())


class DbosWorld(EngineWorld):
    def __init__(self, tape, cfg: dict[str, Any]) -> None:
        super().__init__(tape, cfg)
        self.trace = IncTrace(self.clock)
        self.tmp = TmpDir()
        self.backend = "sqlite"
        self.incs: list[DbosIncarnation] = []
        self.crash_event: asyncio.Event | None = None
        self.crashed_at: dict[int, int] = {}
        dbos_emulator.reset_emulator()
        # how long an async DBOS operation stays suspended for its lookup is a property of the real library this emulator cannot
        # know: vary it per run so that no verdict rests on one value
        dbos_emulator.HOPS = tape.choice([0, 1, 1, 2], "dbos.hops")
        dbos_emulator.OBSERVER.append(lambda kind, **f: self.trace.log(kind, **f))
        SEAM.reset()
        SEAM.active = True
        SEAM.on_crash = self._on_crash
        self.loop.task_hook = self._task_hook
        # a real executor thread starts with an EMPTY contextvars context (run_in_executor does not copy it): the repository
        # relies on that to escape the DBOS step context when it calls DBOS.send from a step
        orig = self.loop.run_in_executor

        def rie(executor, func, *args):
            inc = INCARNATION.get()

            def call():
                def inner():
                    INCARNATION.set(inc)
                    try:
                        return func(*args)
                    except BaseException as e:  # noqa: BLE001
                        self.trace.log("executor-error", exc=type(e).__name__, msg=str(e)[:120])
                        raise
                return contextvars.Context().run(inner)
            return orig(executor, call)
        self.loop.run_in_executor = rie  # type: ignore[method-assign]

    def _task_hook(self, task) -> None:
        n = INCARNATION.get()
        if n and self.incs and n <= len(self.incs):
            self.incs[n - 1].tasks.append(task)

    def _on_crash(self, inc: int) -> None:
        self.crashed_at[inc] = self.trace.log("crash", inc=inc, commits=SEAM.total_commits)
        self.fault("process-crash")
        if self.crash_event is not None:
            self.crash_event.set()

    def new_incarnation(self, executor_id: str = "exec-1", server_chain: bool = False) -> DbosIncarnation:
        inc = DbosIncarnation(self, len(self.incs) + 1, executor_id, server_chain)
        self.incs.append(inc)
        self.trace.log("incarnation", n=inc.n, executor=executor_id)
        return inc

    async def kill(self, inc: DbosIncarnation) -> None:
        if inc.n not in SEAM.fenced:
            SEAM.crash_now(inc.n)
        for _ in range(20):
            pend = [t for t in inc.tasks if not t.done()]
            if not pend:
                break
            for t in pend:
                t.cancel()
            await asyncio.gather(*pend, return_exceptions=True)
        dbos_emulator._instances.pop(inc.n, None)
        # only this process's control loops die with it (another replica may host a resumed run)
        for rid in list(self.live_runners):
            self.live_runners[rid] = [r for r in self.live_runners[rid] if getattr(r, "_sim_inc", inc.n) != inc.n]
        inc.workflows.clear()
        inc.runtime = inc.outer = None
        gc.collect()
        self.trace.log("killed", inc=inc.n)

    def close(self) -> None:
        SEAM.active = False
        SEAM.on_crash = None
        dbos_emulator.reset_emulator()
        try:
            super().close()
        finally:
            self.tmp.close()
            self.incs.clear()
