"""W-ENGINE: generated workflows on the real engine under SimLoop.

Real: Workflow, Context, WorkflowHandler, control loop + reducer, BasicRuntime,
retry policies, InMemoryStateStore, ResourceManager.
Sim:  event loop/clock, program generator, step-body interpreter, recording
      runtime/adapter decorators, drivers.
"""
from __future__ import annotations

import asyncio
import gc
import json
import weakref
from typing import Any, Optional, Union

from sim import boot
from sim.clock import SimClock
from sim.loop import SimCap, SimDeadlock, SimLoop
from sim.trace import Trace

boot.boot()

from workflows import Context, Workflow, catch_error, step  # noqa: E402
from workflows.events import (  # noqa: E402
    Event,
    InputRequiredEvent,
    StepFailedEvent,
    StepStateChanged,
    StopEvent,
    UnhandledEvent,
    WorkflowCancelledEvent,
    WorkflowFailedEvent,
    WorkflowIdleEvent,
    WorkflowTimedOutEvent,
)
from workflows.plugins.basic import BasicRuntime  # noqa: E402
from workflows.runtime import control_loop as cl_mod  # noqa: E402
from workflows.runtime.runtime_decorators import (  # noqa: E402
    BaseExternalRunAdapterDecorator,
    BaseInternalRunAdapterDecorator,
    BaseRuntimeDecorator,
)
from workflows.runtime.types.plugin import (  # noqa: E402
    SnapshottableAdapter,
    V2RuntimeCompatibilityShim,
)
from workflows.runtime.types.results import (  # noqa: E402
    AddCollectedEvent,
    AddWaiter,
    DeleteCollectedEvent,
    DeleteWaiter,
    StepWorkerFailed,
    StepWorkerResult,
    WaitingForEvent,
)
from workflows.runtime.types.ticks import (  # noqa: E402
    TickAddEvent,
    TickCancelRun,
    TickIdleCheck,
    TickIdleRelease,
    TickPublishEvent,
    TickStepResult,
    TickTimeout,
    TickWaiterTimeout,
)

from . import events as EV  # noqa: E402
from .policies import build_policy, gen_policy  # noqa: E402

boot.patch_ids()

# ---------------------------------------------------------------------------
# runner registry: a subclass of the private _ControlLoopRunner that registers
# itself while run() is executing.  No behaviour is changed.

_OrigRunner = cl_mod._ControlLoopRunner
_CURRENT_WORLD: list[Any] = [None]


class _SimRunner(_OrigRunner):
    async def run(self, *a: Any, **k: Any):  # type: ignore[override]
        w = _CURRENT_WORLD[0]
        if w is None:
            return await super().run(*a, **k)
        rid = self.adapter.run_id
        w.runner_no += 1
        self._sim_runner_no = w.runner_no
        try:
            from sim.sqlite_seam import INCARNATION as _INC
            self._sim_inc = _INC.get()
        except Exception:  # noqa: BLE001
            self._sim_inc = None
        w.live_runners.setdefault(rid, []).append(self)
        w.trace.log("runner-start", run=rid, runner=self._sim_runner_no)
        try:
            return await super().run(*a, **k)
        finally:
            for h in getattr(w, "runner_exit_hooks", ()):
                h(self)
            if self in w.live_runners.get(rid, []):
                w.live_runners[rid].remove(self)
            w.trace.log("runner-exit", run=rid, runner=self._sim_runner_no)


cl_mod._ControlLoopRunner = _SimRunner

# observation only: log hard aborts of a run's control-loop task (idle release, handler.cancel())
from workflows.plugins import basic as _basic_mod  # noqa: E402

_orig_abort = _basic_mod.ExternalAsyncioAdapter.abort


def _logged_abort(self) -> None:
    w = _CURRENT_WORLD[0]
    if w is not None:
        w.trace.log("abort", run=self.run_id, live=not self._queues.complete.done())
    return _orig_abort(self)


_basic_mod.ExternalAsyncioAdapter.abort = _logged_abort

_orig_ext_send = _basic_mod.ExternalAsyncioAdapter.send_event


async def _logged_ext_send(self, tick) -> None:
    w = _CURRENT_WORLD[0]
    if w is not None and w.cfg.get("log_mailbox"):
        w.trace.log("mailbox-put", run=self.run_id, **tick_desc(tick))
    return await _orig_ext_send(self, tick)


_basic_mod.ExternalAsyncioAdapter.send_event = _logged_ext_send

# ---------------------------------------------------------------------------
# recording runtime / adapters


def uid_of(ev: Any) -> Any:
    if isinstance(ev, StepFailedEvent):
        return ("F", ev.step_name, uid_of(ev.input_event))
    return getattr(ev, "uid", None) if ev is not None else None


def ev_desc(ev: Any) -> str:
    return type(ev).__name__


def tick_desc(tick: Any) -> dict:
    if isinstance(tick, TickStepResult):
        res = []
        for r in tick.result:
            if isinstance(r, StepWorkerResult):
                res.append(("result", ev_desc(r.result) if r.result is not None else None, uid_of(r.result)))
            elif isinstance(r, StepWorkerFailed):
                res.append(("failed", type(r.exception).__name__))
            elif isinstance(r, AddCollectedEvent):
                res.append(("add_collected", r.event_id, uid_of(r.event)))
            elif isinstance(r, DeleteCollectedEvent):
                res.append(("del_collected", r.event_id))
            elif isinstance(r, AddWaiter):
                res.append(("add_waiter", r.waiter_id, r.event_type.__name__, r.timeout,
                            sorted(r.requirements.items()), r.waiter_event is not None))
            elif isinstance(r, DeleteWaiter):
                res.append(("del_waiter", r.waiter_id))
        return {"tick": "step_result", "step": tick.step_name, "worker": tick.worker_id,
                "uid": uid_of(tick.event), "res": res}
    if isinstance(tick, TickAddEvent):
        d = {"tick": "add_event", "ev": ev_desc(tick.event), "uid": uid_of(tick.event),
             "target": tick.step_name, "attempts": tick.attempts}
        if hasattr(tick.event, "key"):
            d["key"] = tick.event.key
        return d
    if isinstance(tick, TickWaiterTimeout):
        return {"tick": "waiter_timeout", "step": tick.step_name, "waiter": tick.waiter_id}
    if isinstance(tick, TickTimeout):
        return {"tick": "timeout"}
    if isinstance(tick, TickCancelRun):
        return {"tick": "cancel"}
    if isinstance(tick, TickIdleCheck):
        return {"tick": "idle_check"}
    if isinstance(tick, TickIdleRelease):
        return {"tick": "idle_release"}
    if isinstance(tick, TickPublishEvent):
        return {"tick": "publish", "ev": ev_desc(tick.event)}
    return {"tick": type(tick).__name__}


class SimInternalAdapter(BaseInternalRunAdapterDecorator, SnapshottableAdapter):
    def __init__(self, decorated, world) -> None:
        super().__init__(decorated)
        self._w = world

    async def write_to_event_stream(self, event: Event) -> None:
        self._w.on_publish(self.run_id, event)
        await self._decorated.write_to_event_stream(event)

    async def send_event(self, tick) -> None:
        self._w.trace.log("deliver", run=self.run_id, side="int", **tick_desc(tick))
        await self._decorated.send_event(tick)

    async def get_now(self) -> float:
        if self._w.cfg.get("epoch_now"):
            return self._w.clock.wall()
        return await self._decorated.get_now()

    async def on_tick(self, tick) -> None:
        self._w.on_tick(self.run_id, tick)
        await self._decorated.on_tick(tick)
        for h in self._w.after_tick_hooks:
            h(self, tick)

    async def wait_for_next_task(self, running, pending, timeout=None):
        # observation only: the instant at which the control loop learns that a worker task has completed
        res = await self._decorated.wait_for_next_task(running, pending, timeout)
        c = res.completed
        if c is not None:
            for nt in list(running) + list(res.started):
                if nt.task is c:
                    if not nt.key.startswith("__pull__") or self._w.cfg.get("log_pull_done"):
                        self._w.trace.log("task-done", run=self.run_id, key=nt.key)
                    break
        return res

    @property
    def init_state(self):
        return self._decorated.init_state  # type: ignore[attr-defined]

    def replay(self):
        return self._decorated.replay()  # type: ignore[attr-defined]


class SimExternalAdapter(BaseExternalRunAdapterDecorator, SnapshottableAdapter,
                         V2RuntimeCompatibilityShim):
    def __init__(self, decorated, world) -> None:
        super().__init__(decorated)
        self._w = world

    async def send_event(self, tick) -> None:
        self._w.trace.log("deliver", run=self.run_id, side="ext", **tick_desc(tick))
        await self._decorated.send_event(tick)

    @property
    def init_state(self):
        return self._decorated.init_state  # type: ignore[attr-defined]

    def replay(self):
        return self._decorated.replay()  # type: ignore[attr-defined]

    def get_result_or_none(self):
        return self._decorated.get_result_or_none()  # type: ignore[attr-defined]

    @property
    def is_running(self) -> bool:
        return self._decorated.is_running  # type: ignore[attr-defined]

    def abort(self) -> None:
        self._decorated.abort()  # type: ignore[attr-defined]


class SimRuntime(BaseRuntimeDecorator):
    def __init__(self, world, inner=None) -> None:
        super().__init__(inner if inner is not None else BasicRuntime())
        self._w = world

    def get_internal_adapter(self, workflow):
        return SimInternalAdapter(self._decorated.get_internal_adapter(workflow), self._w)

    def get_external_adapter(self, run_id: str):
        return SimExternalAdapter(self._decorated.get_external_adapter(run_id), self._w)

    def run_workflow(self, run_id, workflow, init_state, start_event=None,
                     serialized_state=None, serializer=None):
        inner = self._decorated.run_workflow(run_id, workflow, init_state, start_event=start_event,
                                             serialized_state=serialized_state, serializer=serializer)
        q = getattr(inner, "_queues", None)
        task = getattr(q, "complete", None)
        if task is not None:
            w = self._w

            def _done(t, run_id=run_id):
                if t.cancelled():
                    w.trace.log("run-task-done", run=run_id, how="cancelled")
                elif t.exception() is not None:
                    w.trace.log("run-task-done", run=run_id, how="error", exc=type(t.exception()).__name__, msg=str(t.exception())[:80])
                else:
                    w.trace.log("run-task-done", run=run_id, how="result", res=type(t.result()).__name__)
            task.add_done_callback(_done)
        return SimExternalAdapter(inner, self._w)


# ---------------------------------------------------------------------------
# program generation

DEFAULT_CFG: dict[str, Any] = {
    "driver": "finish",          # finish | result
    "n_work": (1, 4),
    "n_types": (1, 4),
    "workers_max": 4,
    "fan_max": 3,
    "p_retry": 30, "p_fail": 25, "p_sync": 10, "p_stream": 30, "p_target": 20,
    "p_collect": 0, "p_wait": 0, "p_unhandled": 0, "p_external": 0, "p_ret_none": 30, "p_ask": 0,
    "retry_delays": [0, 0, 1, 2],
    "p_cancel": 0, "timeouts": [None], "p_pred_raises": 0, "p_nonevent": 0, "p_baseexc": 0,
    "grid": [0, 0, 1, 1, 2, 3, 5],   # seconds; 0 = no suspension at all
    "emit_budget": 40,
    "timeout": None,
    "quiesce_gap": 500.0,
    "max_steps": 60_000,
    "max_time": 1e6,
    "wait_timeouts": [None, "default", 4, 10], "wait_types": ["Resp0"], "p_resp_step": 0, "p_wait_self": 30,
    "exc_pool": ["ValueError", "SimStepError", "KeyError"],
}


def gen_spec(tape, cfg: dict[str, Any]) -> dict:
    n_types = tape.rng_int(*cfg["n_types"], "n_types")
    n_work = tape.rng_int(*cfg["n_work"], "n_work")
    types = [f"E{i}" for i in range(n_types)]
    if cfg.get("p_subclass") and n_types >= 2 and tape.chance(cfg["p_subclass"], 100, "subclass?"):
        # one type is a *subclass* of an earlier one: routing must go by exact type
        j = tape.rng_int(1, n_types - 1, "subclass.j")
        b = tape.rng_int(0, min(j - 1, 2), "subclass.base")
        if f"E{b}s" not in types:
            types[j] = f"E{b}s"
    names = [f"w{i}" for i in range(n_work)]
    accepts: dict[str, list[str]] = {n: [] for n in names}
    for t in types:
        k = 1 + (1 if tape.chance(35, 100, "multi-consumer") else 0)
        for _ in range(k):
            s = tape.choice(names, "consumer")
            if t not in accepts[s] and len(accepts[s]) < 3:
                accepts[s].append(t)
    if not any(types[0] in a for a in accepts.values()):
        accepts[names[0]].append(types[0])
    for t in types:
        if not any(t in a for a in accepts.values()):
            accepts[names[0]].append(t)
    names = [n for n in names if accepts[n]]
    idx = {t: i for i, t in enumerate(types)}
    level = {n: max(idx[t] for t in accepts[n]) for n in names}
    level["s0"] = -1
    all_steps = ["s0"] + names
    accepts["s0"] = ["Start0"]
    # producers: every type gets a primary producer of lower level
    produces: dict[str, list[str]] = {n: [] for n in all_steps}
    for t in types:
        cands = [n for n in all_steps if level[n] < idx[t]]
        p = tape.choice(cands, "producer")
        produces[p].append(t)
        if len(cands) > 1 and tape.chance(30, 100, "producer2"):
            p2 = tape.choice(cands, "producer2")
            if t not in produces[p2]:
                produces[p2].append(t)
    driver = cfg["driver"]
    steps = []
    stop_owner = None
    if driver == "result":
        # the step(s) consuming the last type return the StopEvent
        stop_owner = [n for n in names if types[-1] in accepts[n]]
    for n in all_steps:
        workers = tape.rng_int(1, cfg["workers_max"], "workers")
        sync = n != "s0" and tape.chance(cfg["p_sync"], 100, "sync")
        pol = gen_policy(tape, cfg) if tape.chance(cfg["p_retry"], 100, "retry?") else None
        if pol is not None and tape.chance(cfg.get("p_delay_stop", 0), 100, "delay-stop?"):
            pol = dict(pol, stop=("any", [("delay", tape.choice([1, 2, 4], "delay-stop.d")), ("attempt", 4)]))
        if pol is not None and tape.chance(cfg["p_pred_raises"], 100, "pred-raises?"):
            pol = dict(pol, retry=("raises",))
        scripts = {}
        asks = False
        do_collect = n != "s0" and len(accepts[n]) >= 2 and tape.chance(cfg["p_collect"], 100, "collect?")
        for t in accepts[n]:
            sc: list = []
            if not sync:
                sc.append(("work",))
            if do_collect:
                sc.append(("collect", list(accepts[n]), None))
                if cfg.get("p_collect2") and tape.chance(cfg["p_collect2"], 100, "collect2?"):
                    # the same body feeds a second collect buffer with the same event before looking at either result
                    sc.append(("collect", list(accepts[n]), "b2"))
                    sc[-2] = sc[-2] + (None, "defer")
                elif cfg.get("p_collect_then_fail") and tape.chance(cfg["p_collect_then_fail"], 100, "collect-then-fail?"):
                    # the body raises AFTER it has called collect_events and found the set incomplete: its result carries the
                    # collected event and the failure together
                    sc[-1] = sc[-1] + (("fail", tape.choice(cfg["exc_pool"], "cf.exc"), tape.rng_int(1, 2, "cf.k")),)
            if tape.chance(cfg["p_fail"], 100, "fail?"):
                sc.append(("fail", tape.choice(cfg["exc_pool"], "exc"),
                           tape.rng_int(1, 3, "fail.k")))
            if not sync and tape.chance(cfg["p_wait"], 100, "wait?"):
                w_req = tape.chance(60, 100, "wait.req")
                w_to = tape.choice(cfg["wait_timeouts"], "wait.timeout")
                w_id = "w" if tape.chance(70, 100, "wait.id") else None
                if w_id is None and n != "s0":
                    # a derived waiter id is shared by all invocations of a step that wait for the same type with
                    # the same requirements; keep logical waits distinct (per-input requirement) outside s0
                    w_req = True
                first = ("wait", tape.choice(cfg["wait_types"], "wait.type"), w_req, w_to, w_id,
                         tape.chance(50, 100, "wait.ask"))
                if cfg.get("p_wait2") and w_id is not None and tape.chance(cfg["p_wait2"], 100, "wait2?"):
                    # a step with two waits: when the first one times out the body goes on to a fallback wait (so the timed-out
                    # waiter stays registered while the step is suspended again); when it is answered the body waits once more
                    sc.append(first + ("continue",))
                    sc.append(("wait", tape.choice(cfg["wait_types"], "wait2.type"), tape.chance(60, 100, "wait2.req"),
                               tape.choice(cfg["wait_timeouts"], "wait2.timeout"), "w2", tape.chance(50, 100, "wait2.ask")))
                else:
                    sc.append(first)
            if not sync and cfg.get("p_stall") and tape.chance(cfg["p_stall"], 100, "stall?"):
                # synchronous (event-loop blocking) work inside the body: time passes, nothing else runs
                sc.append(("stall", tape.choice(cfg.get("stall_grid", [1, 2]), "stall.d")))
            if tape.chance(cfg["p_nonevent"], 100, "nonevent?"):
                sc.append(("ret", "nonevent"))
                scripts[t] = sc
                continue
            if tape.chance(cfg["p_baseexc"], 100, "baseexc?"):
                sc.append(("failbase",))
            if tape.chance(cfg["p_stream"], 100, "stream?"):
                sc.append(("stream", tape.rng_int(1, 2, "stream.n")))
            if not sync and cfg.get("p_ticker") and tape.chance(cfg["p_ticker"], 100, "ticker?"):
                # progress loop: write to the stream, yield to the loop, repeat (a body that stays runnable for several hops)
                sc.append(("streamloop", tape.rng_int(2, 5, "ticker.n")))
            outs = list(produces[n])
            ret: Any = None
            if outs and not tape.chance(cfg["p_ret_none"], 100, "ret-none"):
                ret = outs[tape.draw(len(outs), "ret")]
            for o in outs:
                cnt = tape.rng_int(1, cfg["fan_max"], "fan") if o != ret or tape.chance(30, 100, "extra") else 0
                if o == ret and cnt:
                    cnt = max(0, cnt - 1)
                if cnt:
                    target = None
                    if tape.chance(cfg["p_target"], 100, "target?"):
                        target = tape.choice([s for s in names if o in accepts[s]], "target")
                    sc.append(("send", o, target, cnt))
            if tape.chance(cfg["p_unhandled"], 100, "unhandled?"):
                sc.append(("send", "E0x" if (cfg.get("p_subclass") and tape.chance(40, 100, "unhandled.sub")) else "X0", None, 1))
            if not sync and tape.chance(40, 100, "work2"):
                sc.append(("work",))
            if driver == "result" and stop_owner and n in stop_owner and t == types[-1]:
                sc.append(("ret", "stop"))
            elif ret is None and tape.chance(cfg["p_ask"], 100, "ask?"):
                sc.append(("ret", "Ask0"))
                asks = True
            else:
                sc.append(("ret", ret))
            scripts[t] = sc
        if any(a[0] == "wait" for sc in scripts.values() for a in sc) and tape.chance(cfg["p_wait_self"], 100, "wait-self?"):
            # the waiting step also accepts the awaited type as a plain input
            wt = next(a[1] for sc in scripts.values() for a in sc if a[0] == "wait")
            accepts[n] = accepts[n] + [wt]
            scripts[wt] = [("work",), ("ret", None)]
        ann = sorted(set(produces[n]) | ({"Ask0"} if asks else set()))
        steps.append({"name": n, "accepts": accepts[n], "workers": workers, "sync": sync,
                      "retry": pol, "role": "step", "scripts": scripts, "returns": ann,
                      "stop": bool(driver == "result" and stop_owner and n in stop_owner)})
    if tape.chance(cfg["p_resp_step"], 100, "resp-step?"):
        steps.append({"name": "rstep", "accepts": ["Resp0"], "workers": tape.rng_int(1, 2, "rstep.w"), "sync": False,
                      "retry": None, "role": "step", "scripts": {"Resp0": [("work",), ("ret", None)]},
                      "returns": [], "stop": False})
    if driver == "finish":
        steps.append({"name": "zfin", "accepts": ["Fin"], "workers": 1, "sync": False, "retry": None,
                      "role": "step", "scripts": {"Fin": [("ret", "stop")]}, "returns": [], "stop": True})
    if cfg["timeouts"] != [None]:
        cfg = dict(cfg, timeout=tape.choice(cfg["timeouts"], "wf.timeout"))
    return {"steps": steps, "types": types, "timeout": cfg["timeout"], "driver": driver,
            "disable_validation": False}


# ---------------------------------------------------------------------------
# building the Workflow class from a spec


def _union(types: list) -> Any:
    if not types:
        return type(None)
    if len(types) == 1:
        return types[0]
    return Union[tuple(types)]  # type: ignore[return-value]


def build_workflow(spec: dict, world: "EngineWorld", **wf_kwargs: Any) -> Workflow:
    ns: dict[str, Any] = {}
    wref = weakref.ref(world)
    any_stop = any(s.get("stop") for s in spec["steps"])
    world.stop_subclass = bool(spec.get("stop_subclass"))
    StopT = EV.Stop1 if world.stop_subclass else StopEvent
    for s in spec["steps"]:
        acc = [EV.TYPES[t] if t != "StepFailedEvent" else StepFailedEvent for t in s["accepts"]]
        rets: list = [EV.TYPES[t] for t in s["returns"]]
        if s.get("stop"):
            rets.append(StopT)
        elif not rets and not any_stop:
            rets.append(StopT)
        elif not rets and s["name"] != "zfin":
            # sink: annotate a (never taken) path to the output so upstream steps
            # are not dead ends
            rets.append(StopT)
        rets.append(type(None))
        fn = _make_fn(s, wref)
        fn.__name__ = s["name"]
        fn.__qualname__ = f"GenWf.{s['name']}"
        fn.__annotations__ = {"ctx": Context, "ev": _union(acc), "return": _union(rets)}
        if s["role"] == "catch":
            dec = catch_error(for_steps=s.get("for_steps"), max_recoveries=s.get("max_recoveries", 1))
        else:
            dec = step(num_workers=s["workers"], retry_policy=build_policy(s["retry"]))
        ns[s["name"]] = dec(fn)
    cls = type("GenWf", (Workflow,), ns)
    cls.__module__ = __name__
    kwargs = dict(timeout=spec.get("timeout"), disable_validation=spec.get("disable_validation", False),
                  runtime=world.runtime)
    if spec.get("verbose"):
        kwargs["verbose"] = True
        # the verbose adapter falls back to print(): keep the check's output readable (module-level name, rebound from outside)
        import workflows.runtime.verbose as _vb
        _vb.print = lambda *a, **k: None  # type: ignore[attr-defined]
    kwargs.update(wf_kwargs)
    return cls(**kwargs)


def _make_fn(s: dict, wref):
    if s["sync"]:
        def sfn(self, ctx, ev):
            return wref().run_body_sync(s, ctx, ev)
        return sfn

    async def afn(self, ctx, ev):
        return await wref().run_body(s, ctx, ev)
    return afn


# ---------------------------------------------------------------------------
# the world


class EngineWorld:
    def __init__(self, tape, cfg: dict[str, Any]) -> None:
        self.tape = tape
        self.cfg = dict(DEFAULT_CFG)
        self.cfg.update(cfg)
        mono0 = tape.choice([0.0, 5000.0, 86400.0 * 3], "mono0")
        wall0 = 1_790_000_000.0 + 86400.0 * tape.draw(5, "wall0")
        self.clock = SimClock(mono0=mono0, wall0=wall0)
        salt = tape.draw(1 << 16, "salt")
        self.loop = SimLoop(self.clock, tape, max_steps=self.cfg["max_steps"],
                            max_time=self.cfg["max_time"], quiesce_gap=self.cfg["quiesce_gap"],
                            salt=salt)
        self.trace = Trace(self.clock)
        self.runtime = SimRuntime(self)
        self.live_runners: dict[str, list] = {}
        self.runner_exit_hooks: list = []
        self.runner_no = 0
        self._uid = 0
        self.emitted = 0
        self.inv_no = 0
        self.fail_counts: dict[Any, int] = {}
        self.open_bodies: dict[int, dict] = {}
        self.faults: dict[str, int] = {}
        self.probes: dict[str, int] = {}
        self.violations: list[dict] = []
        self.publish_hooks: list = []
        self.tick_hooks: list = []
        self.stable_checks: list = []
        self.quiescent_hooks: list = []
        self.after_tick_hooks: list = []
        self.states: set = set()
        self.handlers: dict = {}       # run id -> (WorkflowHandler, workflow) of the runs the drivers started
        self.wait_calls: list[dict] = []
        self.parent_of: dict[int, Any] = {}
        self.dead_runs: dict[str, int] = {}
        self.terminal_runs: set = set()
        self.ended = False
        boot.reset_ids()
        self.loop.executor_delay = lambda: float(self.tape.choice(self.cfg["grid"], "exec"))
        self._last_stable_seq = -1
        self.loop.stable_hooks.append(self._on_stable)
        self.loop.set_exception_handler(self._loop_exc)
        _CURRENT_WORLD[0] = self

    def _loop_exc(self, loop, context) -> None:
        e = context.get("exception")
        self.trace.log("loop-exception", msg=str(context.get("message"))[:80], exc=type(e).__name__ if e else None,
                       detail=str(e)[:160] if e else None)

    def _on_stable(self) -> None:
        if self.trace.seq != self._last_stable_seq:
            self._last_stable_seq = self.trace.log("stable")
        for h in self.stable_checks:
            h()

    # -- bookkeeping ------------------------------------------------------
    def uid(self) -> int:
        self._uid += 1
        return self._uid

    def fault(self, kind: str, n: int = 1) -> None:
        self.faults[kind] = self.faults.get(kind, 0) + n

    def probe(self, name: str, n: int = 1) -> None:
        self.probes[name] = self.probes.get(name, 0) + n

    def violate(self, rule: str, msg: str, seq: int | None = None, **cause: Any) -> None:
        self.violations.append({"rule": rule, "cause": cause, "seq": seq if seq is not None else self.trace.seq,
                                "msg": msg})

    def mk(self, tname: str, parent: Any, src: str, **kw: Any) -> Event:
        cls = EV.TYPES[tname]
        u = self.uid()
        self.parent_of[u] = _hashable(parent)
        p = parent if isinstance(parent, int) else -1
        return cls(uid=u, parent=p, src=src, **kw)

    # -- hooks from the recording adapters ---------------------------------
    def on_publish(self, run_id: str, event: Event) -> None:
        f: dict[str, Any] = {"run": run_id, "ev": ev_desc(event)}
        if isinstance(event, StepStateChanged):
            f.update(step=event.name, state=event.step_state.name, worker=event.worker_id,
                     inp=event.input_event_name)
        elif isinstance(event, UnhandledEvent):
            f.update(etype=event.event_type, idle=event.idle, target=event.step_name)
        elif isinstance(event, WorkflowFailedEvent):
            f.update(step=event.step_name, attempts=event.attempts, elapsed=event.elapsed_seconds,
                     exc=type(event.exception).__name__, msg=str(event.exception)[:60])
        elif isinstance(event, WorkflowTimedOutEvent):
            f.update(active=list(event.active_steps))
        u = uid_of(event)
        if u is not None:
            f["uid"] = u
        if isinstance(event, StopEvent):
            self.terminal_runs.add(run_id)
        seq = self.trace.log("publish", **f)
        for h in self.publish_hooks:
            h(seq, run_id, event)

    def on_tick(self, run_id: str, tick: Any) -> None:
        seq = self.trace.log("tick", run=run_id, **tick_desc(tick))
        for h in self.tick_hooks:
            h(seq, run_id, tick)

    # -- step bodies --------------------------------------------------------
    async def work(self, label: str = "work") -> None:
        d = self.tape.choice(self.cfg["grid"], label)
        if d:
            await asyncio.sleep(d)

    def _enter(self, s: dict, ctx: Context, ev: Any) -> dict:
        self.inv_no += 1
        ri = ctx.retry_info()
        rec = {"inv": self.inv_no, "step": s["name"], "uid": uid_of(ev), "t0": self.clock.t, "run": self._run_id_of(ctx)}
        runners = self.live_runners.get(self._run_id_of(ctx), [])
        self.trace.log("enter", step=s["name"], uid=rec["uid"], inv=rec["inv"], ev=ev_desc(ev), path=getattr(ev, "path", None),
                       retry=ri.retry_number, lastexc=type(ri.last_exception).__name__ if ri.last_exception else None,
                       lastmsg=str(ri.last_exception) if ri.last_exception else None,
                       elapsed=ri.elapsed_seconds, run=self._run_id_of(ctx),
                       runner=runners[-1]._sim_runner_no if runners else None)
        rec["runner"] = runners[-1]._sim_runner_no if runners else None
        self.open_bodies[rec["inv"]] = rec
        if isinstance(ev, StepFailedEvent):
            self.trace.log("step-failed-event", handler=s["name"], step=ev.step_name, attempts=ev.attempts,
                           elapsed=ev.elapsed_seconds, exc=type(ev.exception).__name__, msg=str(ev.exception),
                           in_uid=uid_of(ev.input_event), inv=rec["inv"])
        return rec

    def _run_id_of(self, ctx: Context) -> str:
        try:
            return ctx._face._internal_adapter.run_id  # type: ignore[union-attr]
        except Exception:
            return "?"

    def _exit(self, rec: dict, kind: str, out: Any = None, **extra: Any) -> None:
        self.open_bodies.pop(rec["inv"], None)
        self.trace.log("exit", step=rec["step"], uid=rec["uid"], inv=rec["inv"], exit=kind, out=out, run=rec["run"], **extra)

    def _emit_allowed(self) -> bool:
        if self.emitted >= self.cfg["emit_budget"]:
            self.probe("emit-budget-hit")
            return False
        self.emitted += 1
        return True

    async def run_body(self, s: dict, ctx: Context, ev: Any) -> Any:
        rec = self._enter(s, ctx, ev)
        kind = "?"
        out = None
        try:
            script = s["scripts"].get(ev_desc(ev)) or s["scripts"].get("*") or [("ret", None)]
            result = None
            for act in script:
                op = act[0]
                if op == "work":
                    if s.get("slow_cancel"):
                        # a body that cleans up when it is cancelled, and whose cleanup takes a while
                        try:
                            await self.work()
                        except asyncio.CancelledError:
                            self.probe("cancelled-body-with-slow-cleanup")
                            await asyncio.sleep(s["slow_cancel"])
                            raise
                    else:
                        await self.work()
                elif op == "sleep":
                    await asyncio.sleep(act[1])
                elif op == "stall":
                    self.loop.stall(act[1])
                    self.fault("loop-stall")
                    self.trace.log("stall", step=s["name"], d=act[1], inv=rec["inv"])
                elif op == "streamloop":
                    for _ in range(act[1]):
                        self._act(s, ctx, ev, rec, ("stream", 1))
                        await asyncio.sleep(0)
                elif op == "pset":
                    key = f"{s['name']}_{getattr(ev, 'path', '')}"
                    await ctx.store.set("d." + key, True)
                    self.trace.log("pset", step=s["name"], key=key, inv=rec["inv"], run=rec["run"])
                elif op == "psetk":
                    await ctx.store.set("d." + act[1], True)
                    self.trace.log("pset", step=s["name"], key=act[1], inv=rec["inv"], run=rec["run"])
                elif op == "hset":
                    fe = ev
                    key = f"h_{getattr(fe.input_event, 'path', '')}"
                    await ctx.store.set("d." + key, True)
                elif op == "pstop":
                    d = await ctx.store.get("d", default={})
                    kind = "returned-stop"
                    return StopEvent(result=sorted(d))
                else:
                    done, result = self._act(s, ctx, ev, rec, act)
                    if done is not None:
                        kind, out = done
                        return result
                    if op == "wait":
                        result = await self._do_wait(s, ctx, ev, rec, act)
                        if result == "__return_none__":
                            if len(act) > 6 and act[6] == "continue":
                                continue
                            kind = "returned"
                            return None
            kind = "returned"
            return None
        except WaitingForEvent:
            kind = "suspended"
            raise
        except asyncio.CancelledError:
            kind = "cancelled"
            raise
        except BaseException as e:  # noqa: BLE001
            kind = "raised:" + type(e).__name__
            raise
        finally:
            self._exit(rec, kind, out)

    def run_body_sync(self, s: dict, ctx: Context, ev: Any) -> Any:
        rec = self._enter(s, ctx, ev)
        kind = "?"
        out = None
        try:
            script = s["scripts"].get(ev_desc(ev)) or s["scripts"].get("*") or [("ret", None)]
            for act in script:
                if act[0] in ("work", "sleep", "wait", "pset", "psetk", "pstop", "hset", "streamloop", "stall"):
                    continue
                done, result = self._act(s, ctx, ev, rec, act)
                if done is not None:
                    kind, out = done
                    return result
            kind = "returned"
            return None
        except BaseException as e:  # noqa: BLE001
            kind = "raised:" + type(e).__name__
            raise
        finally:
            self._exit(rec, kind, out)

    def _act(self, s: dict, ctx: Context, ev: Any, rec: dict, act: tuple):
        """Synchronous actions. Returns (done, result): done = (exit kind, out uid) to return."""
        op = act[0]
        name = s["name"]
        in_uid = rec["uid"]
        if op == "send":
            _, tname, target, cnt = act
            for _ in range(cnt):
                if not self._emit_allowed():
                    break
                e = self.mk(tname, in_uid, name)
                self.trace.log("emit", uid=e.uid, ev=tname, by=name, via="send", target=target,
                               parent=in_uid, inv=rec["inv"], run=rec["run"])
                ctx.send_event(e, step=target)
        elif op == "stream":
            for _ in range(act[1]):
                e = self.mk("Prog", in_uid, name)
                self.trace.log("emit", uid=e.uid, ev="Prog", by=name, via="stream", target=None,
                               parent=in_uid, inv=rec["inv"], run=rec["run"])
                ctx.write_event_to_stream(e)
        elif op == "fail":
            _, exc, k = act[:3]
            key = (name, _hashable(in_uid))
            c = self.fail_counts.get(key, 0)
            if k < 0 or c < k:
                self.fail_counts[key] = c + 1
                self.fault("step-failure")
                raise EV.make_exc(exc, f"{name}/{in_uid}/f{c}")
        elif op == "failseq":
            _, excs, k = act
            key = (name, _hashable(in_uid))
            c = self.fail_counts.get(key, 0)
            if k < 0 or c < k:
                self.fail_counts[key] = c + 1
                self.fault("step-failure")
                raise EV.make_exc(excs[c % len(excs)], f"{name}/{in_uid}/f{c}")
        elif op == "failsel":
            # like failseq, but only deliveries whose fan-out index (last character of the path) is selected fail
            _, excs, k, sel = act
            idx = str(getattr(ev, "path", "") or "")[-1:]
            if idx.isdigit() and int(idx) in sel:
                key = (name, _hashable(in_uid))
                c = self.fail_counts.get(key, 0)
                if k < 0 or c < k:
                    self.fail_counts[key] = c + 1
                    self.fault("step-failure")
                    raise EV.make_exc(excs[c % len(excs)], f"{name}/{in_uid}/f{c}")
        elif op == "failpath":
            # deterministic under re-execution: depends only on the engine's attempt number
            _, exc, k = act
            rn = ctx.retry_info().retry_number
            if k < 0 or rn < k:
                self.fault("step-failure")
                raise EV.make_exc(exc, f"{name}/{getattr(ev, 'path', '')}/a{rn}")
        elif op == "psend":
            _, tname, cnt = act
            for i in range(cnt):
                e = self.mk(tname, in_uid, name, path=f"{getattr(ev, 'path', '')}_{name}{i}")
                self.trace.log("emit", uid=e.uid, ev=tname, by=name, via="send", target=None, parent=in_uid,
                               inv=rec["inv"], run=rec["run"], path=e.path)
                ctx.send_event(e)
        elif op == "ptwin":
            # the same event object sent twice: two deliveries with an identical payload
            _, tname, cnt = act
            for i in range(cnt):
                e = self.mk(tname, in_uid, name, path=f"{getattr(ev, 'path', '')}_{name}{i}")
                for _ in range(2):
                    self.trace.log("emit", uid=e.uid, ev=tname, by=name, via="send", target=None, parent=in_uid,
                                   inv=rec["inv"], run=rec["run"], path=e.path, twin=True)
                    ctx.send_event(e)
        elif op == "pret":
            e = self.mk(act[1], in_uid, name, path=f"{getattr(ev, 'path', '')}_{name}r")
            self.trace.log("emit", uid=e.uid, ev=act[1], by=name, via="return", target=None, parent=in_uid,
                           inv=rec["inv"], run=rec["run"], path=e.path)
            return ("returned", e.uid), e
        elif op == "failbase":
            self.fault("step-baseexception")
            raise SimBaseExc(f"{name}/{in_uid}")
        elif op == "collect":
            _, tnames, buf = act[:3]
            got = ctx.collect_events(ev, [EV.TYPES[t] for t in tnames], buffer_id=buf)
            self.trace.log("collect", step=name, uid=in_uid, inv=rec["inv"], buf=buf, run=rec["run"],
                           got=[uid_of(x) for x in got] if got is not None else None,
                           gtypes=[ev_desc(x) for x in got] if got is not None else None)
            if got is None and len(act) > 4 and act[4] == "defer":
                # incomplete, but the body first feeds its other buffer (the next op); it returns after that
                rec["deferred_buffered"] = True
                self.probe("two-collect-buffers-in-one-body")
                continue_ = True
            else:
                continue_ = False
            if continue_:
                pass
            elif got is None:
                if len(act) > 3 and act[3]:
                    _, exc, k = act[3]
                    key = (name, _hashable(in_uid), "after-collect")
                    c = self.fail_counts.get(key, 0)
                    if isinstance(k, (list, tuple)):
                        # a pattern over this event's invocations (1 = raise): failures with successful invocations in between
                        self.fail_counts[key] = c + 1
                        if c < len(k) and k[c]:
                            self.fault("step-failure")
                            self.probe("raised-after-buffering-collect")
                            raise EV.make_exc(exc, f"{name}/{in_uid}/f{c}")
                    elif c < k:
                        self.fail_counts[key] = c + 1
                        self.fault("step-failure")
                        self.probe("raised-after-buffering-collect")
                        raise EV.make_exc(exc, f"{name}/{in_uid}/f{c}")
                return ("buffered", None), None
            elif rec.pop("deferred_buffered", False):
                # the second buffer is complete but the first was not: the body has nothing to work on yet
                return ("buffered", None), None
            else:
                rec["collected"] = got
        elif op == "set":
            pass  # async-only (store access); handled in run_body via 'aset'
        elif op == "ret":
            r = act[1]
            if r is None:
                return ("returned", None), None
            if r == "stop":
                res = {"uid": in_uid}
                if getattr(self, "stop_subclass", False):
                    # the workflow ends with a user-defined StopEvent subclass
                    self.trace.log("emit", uid=None, ev="Stop1", by=name, via="return", target=None,
                                   parent=in_uid, inv=rec["inv"], run=rec["run"])
                    return ("returned-stop", None), EV.Stop1(uid=-3, payload=self.stop_result(rec))
                self.trace.log("emit", uid=None, ev="StopEvent", by=name, via="return", target=None,
                               parent=in_uid, inv=rec["inv"], run=rec["run"])
                return ("returned-stop", None), StopEvent(result=self.stop_result(rec))
            if r == "nonevent":
                return ("returned-nonevent", None), 12345
            if not self._emit_allowed():
                return ("returned", None), None
            e = self.mk(r, in_uid, name, **(act[2] if len(act) > 2 else {}))
            self.trace.log("emit", uid=e.uid, ev=r, by=name, via="return", target=None, parent=in_uid,
                           inv=rec["inv"], run=rec["run"])
            return ("returned", e.uid), e
        elif op == "wait":
            pass
        else:
            raise ValueError(f"unknown action {act}")
        return None, None

    def stop_result(self, rec: dict) -> Any:
        return {"by": rec["step"], "uid": _hashable(rec["uid"])}

    async def _do_wait(self, s: dict, ctx: Context, ev: Any, rec: dict, act: tuple) -> Any:
        _, tname, req, timeout, waiter_id, ask = act[:6]
        requirements = None
        key = None
        if req:
            key = f"k{rec['uid']}"
            requirements = {"key": key}
        waiter_event = None
        if ask:
            # constructed on every (re)execution, like user code would
            waiter_event = EV.Ask0(uid=-2, parent=rec["uid"] if isinstance(rec["uid"], int) else -1,
                                   src=s["name"], key=(key or f"any{rec['uid']}") + ("#w2" if waiter_id == "w2" else ""))
        wid = waiter_id if waiter_id is None else f"{waiter_id}:{rec['uid']}"
        kwargs: dict[str, Any] = {}
        if timeout != "default":
            kwargs["timeout"] = timeout
        actual = wid or f"waiter_{EV.TYPES[tname].__module__}.{tname}_{requirements or {}}"
        self.trace.log("wait-call", step=s["name"], uid=rec["uid"], inv=rec["inv"], wid=wid, type=tname, run=rec["run"], waiter=actual,
                       key=key, timeout=timeout, ask=bool(ask))
        self.wait_calls.append({"step": s["name"], "uid": rec["uid"], "key": key, "type": tname})
        try:
            got = await ctx.wait_for_event(EV.TYPES[tname], waiter_event=waiter_event, waiter_id=wid,
                                           requirements=requirements, **kwargs)
        except asyncio.TimeoutError:
            self.trace.log("wait-timeout", step=s["name"], uid=rec["uid"], inv=rec["inv"], wid=wid, run=rec["run"])
            return "__return_none__"
        self.trace.log("wait-result", step=s["name"], uid=rec["uid"], inv=rec["inv"], wid=wid, run=rec["run"],
                       got=uid_of(got), gtype=ev_desc(got), key=getattr(got, "key", None), want=key)
        return got

    # -- drivers ------------------------------------------------------------
    async def consume(self, handler, name: str = "c") -> None:
        try:
            async for ev in handler.stream_events(expose_internal=True):
                self.trace.log("consume", c=name, ev=ev_desc(ev), uid=uid_of(ev))
            self.trace.log("consume-end", c=name)
        except asyncio.CancelledError:
            raise
        except BaseException as e:  # noqa: BLE001
            self.trace.log("consume-error", c=name, exc=type(e).__name__)

    def live_recs(self) -> list:
        """trace without what an abandoned incarnation still did after its snapshot was taken"""
        if not self.dead_runs:
            return self.trace.recs
        d = self.dead_runs
        return [r for r in self.trace.recs if not (r[3].get("run") in d and r[0] > d[r[3]["run"]])]

    def close(self) -> None:
        _CURRENT_WORLD[0] = None
        self.loop.drain_and_close()
        self.live_runners.clear()
        self.handlers.clear()
        self.publish_hooks.clear()
        self.tick_hooks.clear()
        self.after_tick_hooks.clear()
        self.quiescent_hooks.clear()
        gc.collect()


class SimBaseExc(BaseException):
    """A user-defined BaseException subclass raised by a step (engine-side failure arm)."""


def _hashable(u: Any) -> Any:
    return u if not isinstance(u, list) else tuple(u)


# ---------------------------------------------------------------------------
# standard scenario: one run of a generated program, to result or quiesce-then-finish


async def external_sender(world: EngineWorld, spec: dict, handler) -> None:
    """Sends 1-3 events from outside at tape-chosen instants (accepted types, or the never-accepted X0)."""
    n = world.tape.rng_int(1, 3, "ext.n")
    pool = list(spec["types"]) + (["X0"] if world.cfg.get("ext_unhandled", True) else []) + \
        (["E0x"] if (world.cfg.get("ext_unhandled", True) and world.cfg.get("p_subclass")) else [])
    for _ in range(n):
        d = world.tape.choice(world.cfg["grid"], "ext.delay")
        if d:
            await asyncio.sleep(d)
        if handler.is_done():
            return
        tname = world.tape.choice(pool, "ext.type")
        e = world.mk(tname, -1, "ext")
        world.trace.log("emit", uid=e.uid, ev=tname, by="ext", via="ext", target=None, parent=-1, inv=0)
        world.fault("external-send")
        world.probe("external-send")
        try:
            handler.ctx.send_event(e)
        except Exception as ex:  # noqa: BLE001
            world.trace.log("ext-send-error", exc=type(ex).__name__)


async def responder(world: EngineWorld, spec: dict, handler) -> None:
    """Answers waits from outside: matching, non-matching, duplicate and early responses at tape-chosen instants."""
    n = world.tape.rng_int(1, 6, "resp.n")
    sent: list[tuple[str, str]] = []
    for _ in range(n):
        d = world.tape.choice(world.cfg["grid"], "resp.delay")
        if d:
            await asyncio.sleep(d)
        if handler.is_done():
            return
        mode = world.tape.draw(10, "resp.mode")
        calls = world.wait_calls
        if mode <= 5 and calls:
            c = calls[world.tape.draw(len(calls), "resp.which")]
            tname, key = c["type"], c["key"] or "nokey"
        elif mode <= 7 and sent:
            tname, key = sent[world.tape.draw(len(sent), "resp.dup")]
            world.fault("duplicate-response")
        else:
            tname, key = world.tape.choice(world.cfg["wait_types"], "resp.type"), "other"
            world.fault("nonmatching-response")
        e = world.mk(tname, -1, "ext", key=key)
        sent.append((tname, key))
        world.trace.log("emit", uid=e.uid, ev=tname, by="ext", via="ext", target=None, parent=-1, inv=0, key=key)
        world.fault("external-response")
        handler.ctx.send_event(e)


async def canceller(world: EngineWorld, handler) -> None:
    d = world.tape.choice(world.cfg["grid"], "cancel.at") + world.tape.choice(world.cfg["grid"], "cancel.at2")
    if d:
        await asyncio.sleep(d)
    if handler.is_done():
        return
    world.fault("cancel-run")
    world.trace.log("cancel-request")
    await handler.cancel_run()
    world.trace.log("cancel-returned", done=handler.is_done())


async def drive_standard(world: EngineWorld, spec: dict, *, extra=None) -> dict:
    """Runs the program; returns outcome info. `extra(world, wf, handler)` may start
    additional driver tasks (external sends, responders)."""
    wf = build_workflow(spec, world)
    start = EV.Start0(uid=world.uid())
    world.trace.log("emit", uid=start.uid, ev="Start0", by="ext", via="start", target=None, parent=-1, inv=0)
    handler = wf.run(start_event=start, run_id="run1")
    world.handlers["run1"] = (handler, wf)
    world.trace.log("run-start", run="run1")
    consumer = asyncio.ensure_future(world.consume(handler))
    tasks = []
    if extra is not None:
        tasks = extra(world, wf, handler) or []
    if world.cfg["p_wait"] and any(a[0] == "wait" for st in spec["steps"] for sc in st["scripts"].values() for a in sc):
        tasks.append(asyncio.ensure_future(responder(world, spec, handler)))
    if world.tape.chance(world.cfg["p_cancel"], 100, "cancel?"):
        tasks.append(asyncio.ensure_future(canceller(world, handler)))
    if world.tape.chance(world.cfg["p_external"], 100, "ext?"):
        tasks.append(asyncio.ensure_future(external_sender(world, spec, handler)))
    outcome: dict[str, Any] = {"handler": handler, "consumer": consumer, "wf": wf}
    if spec["driver"] == "finish":
        # wait for either quiescence or early end (failure etc.)
        q = world.loop.quiesce()
        done, _ = await asyncio.wait({q, handler._result_task}, return_when=asyncio.FIRST_COMPLETED)
        if not handler.is_done():
            world.trace.log("quiescent", phase="pre-fin")
            for h in world.quiescent_hooks:
                h(handler)
            outcome["quiesced"] = True
            fin = EV.Fin(uid=world.uid())
            world.trace.log("emit", uid=fin.uid, ev="Fin", by="ext", via="ext", target=None, parent=-1, inv=0)
            handler.ctx.send_event(fin)
    try:
        q2 = world.loop.quiesce()
        done, _ = await asyncio.wait({q2, handler._result_task}, return_when=asyncio.FIRST_COMPLETED)
        if handler.is_done():
            try:
                outcome["result"] = handler._result_task.result()
                world.trace.log("outcome", kind="result")
            except BaseException as e:  # noqa: BLE001
                outcome["error"] = e
                world.trace.log("outcome", kind="error", exc=type(e).__name__)
        else:
            outcome["hung"] = True
            world.trace.log("outcome", kind="not-done-at-quiescence")
    finally:
        world.ended = True
    # let the consumer finish: it must end without further input
    if not consumer.done():
        q3 = world.loop.quiesce()
        await asyncio.wait({q3, consumer}, return_when=asyncio.FIRST_COMPLETED)
    outcome["consumer_done"] = consumer.done()
    world.trace.log("final", consumer_done=consumer.done())
    for t in tasks:
        t.cancel()
    return outcome


# ---------------------------------------------------------------------------
# snapshot / resume scenario


async def drive_resume(world: EngineWorld, spec: dict, *, extra=None) -> dict:
    """Run, snapshot at a tape-chosen instant (ctx.to_dict -> JSON), abandon the run, resume a new run
    from Context.from_dict, then continue like drive_standard."""
    wf = build_workflow(spec, world)
    start = EV.Start0(uid=world.uid())
    world.trace.log("emit", uid=start.uid, ev="Start0", by="ext", via="start", target=None, parent=-1, inv=0)
    handler = wf.run(start_event=start, run_id="run1")
    world.handlers["run1"] = (handler, wf)
    world.trace.log("run-start", run="run1")
    consumer1 = asyncio.ensure_future(world.consume(handler, "c1"))
    tasks: list = []
    if world.cfg["p_wait"] and any(a[0] == "wait" for st in spec["steps"] for sc in st["scripts"].values() for a in sc):
        tasks.append(asyncio.ensure_future(responder(world, spec, handler)))
    # snapshot instant: after d seconds of virtual time (grid sum), or at first quiescence
    d = sum(world.tape.choice(world.cfg["grid"], "snap.at") for _ in range(world.tape.rng_int(1, 3, "snap.n")))
    outcome: dict[str, Any] = {"handler": handler, "wf": wf}
    if d and world.cfg.get("checkpoints"):
        # a periodic checkpointer: the same live context is serialized every second before the snapshot that is actually resumed
        q = world.loop.quiesce()
        for _ in range(int(d)):
            sl = asyncio.ensure_future(asyncio.sleep(1))
            await asyncio.wait([sl, q, handler._result_task], return_when=asyncio.FIRST_COMPLETED)
            if not sl.done():
                sl.cancel()
                break
            if handler.is_done() or "run1" in world.terminal_runs:
                break
            try:
                handler.ctx.to_dict()
                world.probe("earlier-checkpoint-of-same-context")
            except BaseException as e:  # noqa: BLE001
                world.trace.log("checkpoint-error", exc=type(e).__name__, msg=str(e)[:200])
    elif d:
        sl = asyncio.ensure_future(asyncio.sleep(d))
        q = world.loop.quiesce()
        await asyncio.wait([sl, q, handler._result_task], return_when=asyncio.FIRST_COMPLETED)
        sl.cancel()
    else:
        await asyncio.sleep(0)
    if handler.is_done() or "run1" in world.terminal_runs:
        world.trace.log("snapshot-skipped", why="run-finished-first")
        outcome["resumed"] = False
        return await _finish(world, spec, handler, consumer1, tasks, outcome)
    world.fault("snapshot-resume")
    try:
        snap = handler.ctx.to_dict()
        js = json.loads(json.dumps(snap))
    except BaseException as e:  # noqa: BLE001
        world.trace.log("snapshot-error", exc=type(e).__name__, msg=str(e)[:200])
        outcome["snapshot_error"] = e
        return await _finish(world, spec, handler, consumer1, tasks, outcome)
    world.dead_runs["run1"] = world.trace.log("snapshot", open_bodies=sorted(r["step"] for r in world.open_bodies.values()),
                                              is_running=js.get("is_running"))
    outcome["snapshot"] = js
    for t in tasks:
        t.cancel()
    tasks = []
    mode = world.tape.draw(2, "abandon.mode") if world.cfg.get("abandon_by_cancel") else 0
    if mode == 0:
        handler._external_adapter.abort()   # hard stop of the old run (process going away)
        handler._result_task.cancel()
    else:
        await handler.cancel_run()
    consumer1.cancel()
    await asyncio.sleep(0)
    world.trace.log("abandoned", mode="abort" if mode == 0 else "cancel_run", done=handler.is_done())
    wf2 = build_workflow(spec, world)
    ctx2 = Context.from_dict(wf2, js)
    handler2 = wf2.run(ctx=ctx2, run_id="run2")
    world.handlers["run2"] = (handler2, wf2)
    world.trace.log("run-start", run="run2", resumed=True)
    if world.cfg.get("p_double_resume") and world.tape.chance(world.cfg["p_double_resume"], 100, "double-resume?"):
        # "persist as soon as the run is (re)started": a second snapshot is taken right after the resume, before the new control
        # loop has processed anything (in particular before it rehydrated its waiters), and the run is resumed from THAT
        world.probe("double-resume")
        try:
            js2 = json.loads(json.dumps(handler2.ctx.to_dict()))
        except BaseException as e:  # noqa: BLE001
            world.trace.log("snapshot-error", exc=type(e).__name__, msg=str(e)[:200], second=True)
            js2 = None
        if js2 is not None:
            world.dead_runs["run2"] = world.trace.log("snapshot", second=True, open_bodies=[], is_running=js2.get("is_running"))
            outcome["snapshot2"] = js2
            handler2._external_adapter.abort()
            handler2._result_task.cancel()
            await asyncio.sleep(0)
            wf2 = build_workflow(spec, world)
            handler2 = wf2.run(ctx=Context.from_dict(wf2, js2), run_id="run3")
            world.handlers["run3"] = (handler2, wf2)
            world.trace.log("run-start", run="run3", resumed=True)
    outcome["resumed"] = True
    outcome["handler"] = handler2
    outcome["wf"] = wf2
    consumer2 = asyncio.ensure_future(world.consume(handler2, "c2"))
    if world.cfg["p_wait"] and any(a[0] == "wait" for st in spec["steps"] for sc in st["scripts"].values() for a in sc):
        tasks.append(asyncio.ensure_future(responder(world, spec, handler2)))
    if extra is not None:
        tasks += extra(world, wf2, handler2) or []
    return await _finish(world, spec, handler2, consumer2, tasks, outcome)


async def _finish(world: EngineWorld, spec: dict, handler, consumer, tasks, outcome: dict) -> dict:
    if spec["driver"] == "finish":
        q = world.loop.quiesce()
        await asyncio.wait([q, handler._result_task], return_when=asyncio.FIRST_COMPLETED)
        if not handler.is_done():
            world.trace.log("quiescent", phase="pre-fin")
            for h in world.quiescent_hooks:
                h(handler)
            outcome["quiesced"] = True
            fin = EV.Fin(uid=world.uid())
            world.trace.log("emit", uid=fin.uid, ev="Fin", by="ext", via="ext", target=None, parent=-1, inv=0)
            handler.ctx.send_event(fin)
    q2 = world.loop.quiesce()
    await asyncio.wait([q2, handler._result_task], return_when=asyncio.FIRST_COMPLETED)
    if handler.is_done():
        try:
            outcome["result"] = handler._result_task.result()
            world.trace.log("outcome", kind="result")
        except BaseException as e:  # noqa: BLE001
            outcome["error"] = e
            world.trace.log("outcome", kind="error", exc=type(e).__name__)
    else:
        outcome["hung"] = True
        world.trace.log("outcome", kind="not-done-at-quiescence")
    world.ended = True
    if not consumer.done():
        q3 = world.loop.quiesce()
        await asyncio.wait([q3, consumer], return_when=asyncio.FIRST_COMPLETED)
    outcome["consumer_done"] = consumer.done()
    world.trace.log("final", consumer_done=consumer.done())
    for t in tasks:
        t.cancel()
    return outcome
