"""Small worlds: plain tasks on SimLoop (no engine)."""
from __future__ import annotations

import gc
from typing import Any, Callable

from sim import boot
from sim.clock import SimClock
from sim.loop import SimCap, SimDeadlock, SimLoop
from sim.trace import Trace

boot.boot()
boot.patch_ids()


class SimpleWorld:
    def __init__(self, tape, cfg: dict[str, Any]) -> None:
        self.tape = tape
        self.cfg = dict(cfg)
        self.clock = SimClock(mono0=tape.choice([0.0, 5000.0], "mono0"), wall0=1_790_000_000.0 + 86400.0 * tape.draw(3, "wall0"))
        self.loop = SimLoop(self.clock, tape, max_steps=cfg.get("max_steps", 60_000), max_time=cfg.get("max_time", 1e6),
                            quiesce_gap=cfg.get("quiesce_gap", 500.0), salt=tape.draw(1 << 16, "salt"))
        self.trace = Trace(self.clock)
        self.violations: list[dict] = []
        self.faults: dict[str, int] = {}
        self.probes: dict[str, int] = {}
        self.states: set = set()
        self._last_stable = -1
        self.stable_checks: list[Callable[[], None]] = []
        self.loop.stable_hooks.append(self._on_stable)
        boot.reset_ids()

    def _on_stable(self) -> None:
        for h in self.stable_checks:
            h()

    def fault(self, k: str, n: int = 1) -> None:
        self.faults[k] = self.faults.get(k, 0) + n

    def probe(self, k: str, n: int = 1) -> None:
        self.probes[k] = self.probes.get(k, 0) + n

    def violate(self, rule: str, msg: str, seq: int | None = None, **cause: Any) -> None:
        self.violations.append({"rule": rule, "cause": cause, "seq": seq if seq is not None else self.trace.seq, "msg": msg})

    def close(self) -> None:
        self.loop.drain_and_close()
        self.stable_checks.clear()
        gc.collect()


def simulate_simple(tape, cfg: dict, scenario: Callable, check: Callable | None = None, nontrivial: Callable | None = None,
                    sample: Callable | None = None) -> dict:
    import os
    world = SimpleWorld(tape, cfg)
    harness = None
    out = None
    try:
        try:
            out = world.loop.run_sim(scenario(world))
        except SimCap as e:
            harness = f"cap: {e}"
        except SimDeadlock as e:
            harness = f"deadlock: {e}"
        if harness is None and check is not None:
            check(world, out)
        nt = bool(nontrivial(world, out)) if (nontrivial and harness is None) else False
        res = {"violations": world.violations, "harness": harness, "nontrivial": nt, "shape": world.trace.shape(("task", "key", "op", "src", "kind")),
               "faults": dict(world.faults), "probes": dict(world.probes), "sim_time": world.clock.t, "steps": world.loop.steps,
               "digest": world.trace.digest(), "states": list(world.states), "evals": getattr(world, "_evals", 1) or 1}
        for k, v in world.loop.stats.items():
            if k in ("timer_ties",) and v:
                res["faults"][k] = res["faults"].get(k, 0) + v
        want = bool(os.environ.get("VERIF_WANT_TRACE"))
        if nt or world.violations or want:
            res["sample"] = {"config": sample(world, out) if sample else None, "trace_excerpt": world.trace.excerpt(40)}
        if world.violations or want:
            res["trace_excerpt"] = world.trace.excerpt(400)
        return res
    finally:
        world.close()
