"""W-SERVER: the server runtime stack on the real engine under SimLoop.

Real: ServerRuntimeDecorator(IdleReleaseDecorator(PersistenceDecorator(BasicRuntime))), _WorkflowService,
      SqliteWorkflowStore / MemoryWorkflowStore, SqliteStateStore, migrations, KeyedLock — assembled exactly as
      WorkflowServer.__init__ does (the class itself needs starlette/uvicorn and is not imported).
Sim:  loop, clocks (datetime.now patched in the server modules), SQLite seam (crash fence, commit counting, injected
      errors), incarnations (one "process" = one stack + service + its tasks), recording runtime as the outermost decorator.
"""
from __future__ import annotations

import asyncio
import contextvars
import gc
from typing import Any

from sim import boot, sqlite_seam
from sim.sqlite_seam import INCARNATION, SEAM, SimCrashed

from .engine import EngineWorld, SimRuntime, build_workflow, uid_of  # noqa: F401
from .stores import TmpDir
from sim.trace import Trace

boot.boot()

from llama_agents.server import _service as service_mod  # noqa: E402
from llama_agents.server._runtime.idle_release_runtime import IdleReleaseDecorator  # noqa: E402
from llama_agents.server._runtime.persistence_runtime import PersistenceDecorator  # noqa: E402
from llama_agents.server._runtime.server_runtime import ServerRuntimeDecorator  # noqa: E402
from llama_agents.server._service import _WorkflowService  # noqa: E402
from llama_agents.server._store.abstract_workflow_store import HandlerQuery  # noqa: E402
from llama_agents.server._store.memory_workflow_store import MemoryWorkflowStore  # noqa: E402
from llama_agents.server._store.sqlite.sqlite_workflow_store import SqliteWorkflowStore  # noqa: E402
from workflows.plugins.basic import BasicRuntime  # noqa: E402
from llama_agents.server._store.sqlite import sqlite_workflow_store as _sws  # noqa: E402

_ORIG_TICK_PAGE = _sws._TICK_PAGE_SIZE

_DT_MODULES = [
    "llama_agents.server._runtime.server_runtime",
    "llama_agents.server._runtime.idle_release_runtime",
    "llama_agents.server._store.memory_workflow_store",
    "llama_agents.server._store.sqlite.sqlite_state_store",
    "llama_agents.server._store.sqlite.sqlite_workflow_store",
    "llama_agents.server._store.abstract_workflow_store",
    "llama_agents.server._service",
]
_SQL_MODULES = [
    "llama_agents.server._store.sqlite.sqlite_workflow_store",
    "llama_agents.server._store.sqlite.sqlite_state_store",
    "llama_agents.server._runtime.persistence_runtime",
]
boot.patch_datetime(_DT_MODULES)
sqlite_seam.install(_SQL_MODULES)
service_mod.nanoid = boot.sim_nanoid


# observation only: log (and re-raise) errors of the reload/replay path, which callers swallow in fire-and-forget tasks
from llama_agents.server._runtime import persistence_runtime as _pr  # noqa: E402

_orig_cft = _pr.TickPersistenceDecorator.context_from_ticks


async def _logged_context_from_ticks(self, workflow, run_id):
    from .engine import _CURRENT_WORLD
    try:
        return await _orig_cft(self, workflow, run_id)
    except Exception as e:  # noqa: BLE001
        w = _CURRENT_WORLD[0]
        if w is not None:
            import re
            w.trace.log("reload-error", run=run_id, exc=type(e).__name__, msg=re.sub(r"\d+", "N", str(e))[:100])
        raise


_pr.TickPersistenceDecorator.context_from_ticks = _logged_context_from_ticks


_LAT_METHODS = ("query", "update", "delete", "append_event", "query_events", "append_tick", "get_ticks", "update_handler_status")


def add_store_latency(store, world) -> None:
    """Store I/O that really suspends (as a networked database would): every coroutine method of this store object may yield
    to the event loop before and after the real call, for zero or 1/1024 s, as the tape decides.  The real call itself is
    unchanged; only where the caller can be interleaved changes."""
    T = 1.0 / 1024

    def wrap(name, fn):
        async def slow(*a, **k):
            d = world.tape.draw(5, "store.lat.pre")
            if d == 3:
                await asyncio.sleep(0)
            elif d == 4:
                await asyncio.sleep(T)
            try:
                return await fn(*a, **k)
            finally:
                d = world.tape.draw(5, "store.lat.post")
                if d >= 3:
                    world.fault("store-latency")
                    await asyncio.sleep(0 if d == 3 else T)
        slow.__name__ = name
        return slow
    for name in _LAT_METHODS:
        fn = getattr(store, name, None)
        if fn is not None and asyncio.iscoroutinefunction(fn):
            setattr(store, name, wrap(name, fn))


class Incarnation:
    """One 'process': runtime stack + service + everything it spawns, all in one contextvars.Context."""

    def __init__(self, world: "ServerWorld", n: int) -> None:
        self.world = world
        self.n = n
        self.ctx = contextvars.copy_context()
        self.ctx.run(INCARNATION.set, n)
        self.tasks: list[asyncio.Task] = []
        self.workflows: dict[str, Any] = {}
        self.dead = False
        self.ctx.run(self._build)

    def _build(self) -> None:
        w = self.world
        cfg = w.cfg
        if w.backend == "sqlite":
            self.store = SqliteWorkflowStore(w.tmp.db(), poll_interval=cfg.get("poll_interval", 1.0))
        else:
            self.store = w.memory_store
        if cfg.get("store_latency") and not getattr(self.store, "_verif_latency", False):
            add_store_latency(self.store, w)
            self.store._verif_latency = True
        self.basic = BasicRuntime()
        self.persistence = PersistenceDecorator(self.basic, store=self.store)
        self.idle = IdleReleaseDecorator(self.persistence, store=self.store, idle_timeout=cfg.get("idle_timeout", 60.0))
        self.server_rt = ServerRuntimeDecorator(self.idle, store=self.store, persistence_backoff=list(cfg.get("persistence_backoff", [0.5, 3])))
        self.outer = SimRuntime(w, inner=self.server_rt)
        self.service = _WorkflowService(runtime=self.server_rt, store=self.store)

    def add_workflow(self, name: str, spec: dict, **kw: Any):
        def mk():
            wf = build_workflow(spec, self.world, runtime=self.outer, workflow_name=name, **kw)
            return wf
        wf = self.ctx.run(mk)
        self.workflows[name] = wf
        return wf

    def spawn(self, coro) -> asyncio.Task:
        t = self.world.loop.create_task(coro, context=self.ctx)
        return t

    async def call(self, coro) -> Any:
        """run a coroutine inside this incarnation's context and await it from the driver"""
        return await self.spawn(coro)

    async def start(self) -> None:
        await self.call(self.service.start())
        rt = self.persistence.resume_task
        if rt is not None:
            try:
                await rt
            except BaseException:  # noqa: BLE001
                pass


class IncTrace(Trace):
    """trace that stamps every record with the incarnation of the calling context"""
    __slots__ = ()

    def log(self, kind: str, /, **fields: Any) -> int:
        n = INCARNATION.get()
        if n:
            fields["inc"] = n
        return super().log(kind, **fields)


class ServerWorld(EngineWorld):
    def __init__(self, tape, cfg: dict[str, Any]) -> None:
        super().__init__(tape, cfg)
        self.trace = IncTrace(self.clock)
        self.tmp = TmpDir()
        self.backend = cfg.get("backend") or tape.choice(cfg.get("backends", ["sqlite"]), "backend")
        # tuning knob randomised per run: the page size of SqliteWorkflowStore.stream_ticks (100 in the shipped code), so
        # that page boundaries fall inside the short tick logs of generated programs
        _sws._TICK_PAGE_SIZE = tape.choice([_ORIG_TICK_PAGE, _ORIG_TICK_PAGE, 2, 3, 5], "knob.tick-page")
        self.knobs = {"tick_page_size": _sws._TICK_PAGE_SIZE}
        self.memory_store = MemoryWorkflowStore() if self.backend == "memory" else None
        self.incs: list[Incarnation] = []
        self.crash_event: asyncio.Event | None = None
        SEAM.reset()
        SEAM.active = True
        SEAM.on_crash = self._on_crash
        self.loop.task_hook = self._task_hook
        self.crashed_at: dict[int, int] = {}

    def _task_hook(self, task) -> None:
        n = INCARNATION.get()
        if n and self.incs and n <= len(self.incs):
            self.incs[n - 1].tasks.append(task)

    def _on_crash(self, inc: int) -> None:
        self.crashed_at[inc] = self.trace.log("crash", inc=inc, commits=SEAM.total_commits)
        self.dead_runs_by_inc = getattr(self, "dead_runs_by_inc", {})
        self.fault("process-crash")
        if self.crash_event is not None:
            self.crash_event.set()

    def new_incarnation(self) -> Incarnation:
        inc = Incarnation(self, len(self.incs) + 1)
        self.incs.append(inc)
        self.trace.log("incarnation", n=inc.n, backend=self.backend)
        return inc

    async def kill(self, inc: Incarnation) -> None:
        """the process is gone: fence (if not yet), cancel every task it ever created, drop references"""
        if inc.n not in SEAM.fenced:
            SEAM.crash_now(inc.n)
        inc.dead = True
        for _ in range(20):
            pend = [t for t in inc.tasks if not t.done()]
            if not pend:
                break
            for t in pend:
                t.cancel()
            await asyncio.gather(*pend, return_exceptions=True)
        self.live_runners.clear()
        inc.workflows.clear()
        for attr in ("store", "basic", "persistence", "idle", "server_rt", "outer", "service"):
            setattr(inc, attr, None)
        gc.collect()
        self.trace.log("killed", inc=inc.n)

    def records_of_live(self) -> list:
        """trace without what a dead incarnation still did after its crash instant"""
        if not self.crashed_at:
            return self.trace.recs
        c = self.crashed_at
        return [r for r in self.trace.recs if not (r[3].get("inc") in c and r[0] > c[r[3]["inc"]] and r[2] not in ("killed",))]

    def close(self) -> None:
        SEAM.active = False
        SEAM.on_crash = None
        _sws._TICK_PAGE_SIZE = _ORIG_TICK_PAGE
        try:
            super().close()
        finally:
            self.tmp.close()
            self.incs.clear()
            self.memory_store = None
