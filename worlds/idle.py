"""Idle release / reload scenarios on W-SERVER (in-process stack), shared by C26 and C36."""
from __future__ import annotations

import asyncio
from typing import Any

from sim.sqlite_seam import SEAM
from worlds import events as EV
from worlds.server import ServerWorld
from props.c15 import _read_status  # noqa: F401


def gen_hitl(tape, cfg: dict[str, Any]) -> dict:
    """s0 -> E0 (fan n) -> w0: work, [wait Resp0(key)], pset, emits E1 -> w1: pset.  zfin on Fin."""
    n0 = tape.rng_int(1, 3, "n0")
    use_send = bool(cfg.get("allow_send_event")) and tape.chance(50, 100, "send_event?")
    wait = tape.chance(cfg.get("p_wait", 70), 100, "wait?")
    retry_delay = tape.choice(cfg.get("retry_delays", [0]), "retry.delay")
    fail_k = 1 if (retry_delay and tape.chance(50, 100, "fail?")) else 0
    s0 = [("work",), ("pset",)]
    if use_send:
        s0 += [("psend", "E0", n0), ("ret", None)]
    else:
        s0 += [("psend", "E0", n0 - 1)] if (n0 > 1 and cfg.get("allow_send_event")) else []
        s0 += [("pret", "E0")]
    w0 = [("work",)]
    if fail_k:
        w0.append(("failpath", "ValueError", fail_k))
    if wait:
        w0.append(("wait", "Resp0", True, None, "w", bool(tape.draw(2, "ask")), "continue"))
    w0 += [("pset",), ("pret", "E1")]
    steps = [
        {"name": "s0", "accepts": ["Start0"], "workers": 1, "sync": False, "retry": None, "role": "step", "scripts": {"Start0": s0}, "returns": ["E0"], "stop": False},
        {"name": "w0", "accepts": ["E0"], "workers": tape.rng_int(1, 3, "w0.w"), "sync": False,
         "retry": {"retry": None, "wait": ("fixed", retry_delay) if retry_delay else ("none",), "stop": ("attempt", 3)} if fail_k else None,
         "role": "step", "scripts": {"E0": w0}, "returns": ["E1"], "stop": False},
        {"name": "w1", "accepts": ["E1"], "workers": 2, "sync": False, "retry": None, "role": "step",
         "scripts": {"E1": [("work",), ("pset",), ("ret", None)]}, "returns": [], "stop": False},
        {"name": "zfin", "accepts": ["Fin"], "workers": 1, "sync": False, "retry": None, "role": "step", "scripts": {"Fin": [("pstop",)]}, "returns": [], "stop": True},
    ]
    return {"steps": steps, "types": ["E0", "E1"], "timeout": None, "driver": "finish", "disable_validation": False,
            "n0": n0 if (use_send or not cfg.get("allow_send_event")) else n0, "waits": wait, "use_send": use_send, "fail_k": fail_k}


def expected_keys(spec: dict, world) -> list[str]:
    """keys written by a complete run, from the emit records (paths are schedule independent)"""
    paths = {"r"}
    for _, _, k, f in world.trace.recs:
        if k == "emit" and f.get("path"):
            paths.add((f["ev"], f["path"]))
    keys = {"s0_r"}
    for p in paths:
        if isinstance(p, tuple):
            keys.add(("w0_" if p[0] == "E0" else "w1_") + p[1])
    return sorted(keys)


async def send(world, inc, ev, label="ext") -> bool:
    """send through the service like the HTTP API does; returns True if the call returned without error"""
    world.trace.log("send", uid=ev.uid, ev=type(ev).__name__, key=getattr(ev, "key", None), label=label)
    world.fault("external-send")
    try:
        await inc.service.send_event("h1", ev)
        world.trace.log("send-returned", uid=ev.uid)
        return True
    except BaseException as e:  # noqa: BLE001
        world.trace.log("send-rejected", uid=ev.uid, exc=type(e).__name__, msg=str(e)[:80])
        return False


def handler_row(world):
    import sqlite3
    if world.backend == "memory":
        hs = list(world.memory_store.handlers.values()) if world.memory_store else []
        return (hs[0].status, hs[0].idle_since is not None) if hs else None
    conn = sqlite3.connect(world.tmp.db())
    try:
        row = conn.execute("SELECT status, idle_since FROM handlers WHERE handler_id='h1'").fetchone()
    finally:
        conn.close()
    return (row[0], row[1] is not None) if row else None
