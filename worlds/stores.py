"""Helpers for the store worlds: temp databases, state types, JSON value generator."""
from __future__ import annotations

import os
import shutil
import tempfile
from typing import Any

from pydantic import BaseModel, Field

from sim import boot

boot.boot()

from workflows.context.state_store import DictState, InMemoryStateStore  # noqa: E402
from workflows.context.serializers import JsonSerializer  # noqa: E402


class BaseSt(BaseModel):
    a: int = 0
    items: list = Field(default_factory=list)
    meta: dict = Field(default_factory=dict)


class ChildSt(BaseSt):
    extra: str = "x"


class TmpDir:
    def __init__(self) -> None:
        base = "/dev/shm" if os.path.isdir("/dev/shm") and os.access("/dev/shm", os.W_OK) else None
        self.path = tempfile.mkdtemp(prefix="verif-db-", dir=base)

    def db(self, name: str = "w.db") -> str:
        return os.path.join(self.path, name)

    def close(self) -> None:
        shutil.rmtree(self.path, ignore_errors=True)


def gen_value(tape, depth: int = 0) -> Any:
    k = tape.draw(7 if depth < 2 else 4, "val.kind")
    if k == 0:
        return tape.draw(5, "val.int")
    if k == 1:
        return tape.choice(["", "x", "yy"], "val.str")
    if k == 2:
        return None
    if k == 3:
        return bool(tape.draw(2, "val.bool"))
    if k == 4:
        return [gen_value(tape, depth + 1) for _ in range(tape.draw(3, "val.len"))]
    if k == 5:
        return {tape.choice(["k1", "k2", "k3"], "val.key"): gen_value(tape, depth + 1) for _ in range(tape.draw(3, "val.dlen"))}
    # floats that compare equal to ints / bools but are a different JSON type
    return [1.5, 1.0, 0.0][tape.draw(3, "val.float")]
