"""Single failing step under composed retry policies (C05, C06)."""
from __future__ import annotations

from typing import Any

EXC_POOL = ["ValueError", "KeyError", "SimStepError"]


def gen_wait(tape, rich: bool):
    if not rich:
        d = tape.choice([0, 1, 2, 3], "wait.fixed")
        return ("fixed", d) if d else ("none",)
    k = tape.draw(9, "wait.kind")
    if k == 0:
        return ("fixed", tape.choice([1, 2, 3], "w.fixed"))
    if k == 1:
        n = tape.rng_int(2, 4, "w.chain.n")
        lst = [("fixed", tape.choice([1, 2, 4, 8, 16], "w.chain.d")) for _ in range(n)]
        if tape.chance(40, 100, "w.chain.tail"):
            # a tail that depends on the attempt number, reused once the chain is exhausted
            lst[-1] = tape.choice([("exp", 1, 2, 60, 0), ("inc", 1, 2, 100), ("exp", 0.5, 3, 60, 0)], "w.chain.tailkind")
            if n > 2 and tape.chance(50, 100, "w.chain.short"):
                lst = lst[:1] + lst[-1:]
        if tape.chance(35, 100, "w.chain.sumlink"):
            # a link that is itself a sum (the usual "base + jitter" link)
            i = tape.rng_int(0, len(lst) - 1, "w.chain.sumlink.i")
            if lst[i][0] == "fixed":
                lst[i] = ("combine", [lst[i], tape.choice([("random", 0, 1), ("fixed", 1), ("fixed", 3)], "w.chain.sumlink.kind")])
        return ("chain", lst)
    if k == 2:
        return ("exp", tape.choice([1, 2, 0.5], "w.exp.m"), tape.choice([2, 3], "w.exp.b"),
                tape.choice([60, 8, 4], "w.exp.max"), tape.choice([0, 0, 1], "w.exp.min"))
    if k == 3:
        return ("inc", tape.choice([0, 1, 2], "w.inc.s"), tape.choice([1, 2, 4], "w.inc.i"), tape.choice([100, 5], "w.inc.max"))
    if k == 4:
        return ("random", tape.choice([1, 2], "w.rnd.min"), tape.choice([2, 4], "w.rnd.max"))
    if k == 5:
        return ("expjitter", tape.choice([1, 2], "w.ej.i"), tape.choice([60, 8], "w.ej.max"), 2, tape.choice([1, 0], "w.ej.j"))
    if k == 6:
        return ("randexp", tape.choice([1, 2], "w.re.m"), tape.choice([60, 8], "w.re.max"), 2, tape.choice([0, 1], "w.re.min"))
    if k == 7:
        return ("combine", [("fixed", tape.choice([1, 2], "w.c.f")),
                            gen_wait_simple_det(tape)])
    return ("none",)


def gen_wait_simple_det(tape):
    k = tape.draw(3, "w.c.k")
    if k == 0:
        return ("exp", 1, 2, 60, 0)
    if k == 1:
        return ("chain", [("fixed", tape.choice([1, 4], "w.c.c1")), ("fixed", tape.choice([2, 8], "w.c.c2"))])
    return ("inc", 1, 2, 100)


def gen_stop(tape, depth: int = 0):
    # depth 1 may nest one more combinator, so that mixed shapes like (a & b) | c exist; depth 2 is leaves only
    k = tape.draw(6 if depth == 0 else (5 if depth == 1 else 3), "stop.kind")
    if k == 0:
        return ("attempt", tape.rng_int(0, 5, "stop.n"))
    if k == 1:
        return ("delay", tape.choice([2, 4, 6, 9], "stop.d"))
    if k == 2:
        return ("before_delay", tape.choice([3, 5, 8], "stop.bd"))
    if k == 3:
        return ("any", [gen_stop(tape, depth + 1), gen_stop(tape, depth + 1)])
    if k == 4:
        return ("all", [gen_stop(tape, depth + 1), gen_stop(tape, depth + 1)])
    return ("attempt", tape.rng_int(1, 4, "stop.n2"))


def gen_retry_cond(tape, depth: int = 0):
    k = tape.draw(8 if depth == 0 else (6 if depth == 1 else 4), "retry.kind")
    if k == 0:
        return None if depth == 0 else ("always",)
    if k == 1:
        return ("type", [tape.choice(EXC_POOL, "rt.t")])
    if k == 2:
        return ("not_type", [tape.choice(EXC_POOL, "rt.nt")])
    if k == 3:
        return ("msg", tape.choice(["f0", "f1", "f[12]", "s0"], "rt.msg"))
    if k == 4:
        return ("any", [gen_retry_cond(tape, depth + 1), gen_retry_cond(tape, depth + 1)])
    if k == 5:
        return ("all", [gen_retry_cond(tape, depth + 1), gen_retry_cond(tape, depth + 1)])
    return None


def stop_kinds(s) -> str:
    if s[0] in ("any", "all"):
        return s[0] + "(" + ",".join(sorted(stop_kinds(x) for x in s[1])) + ")"
    return s[0]


def wait_kind(w) -> str:
    if w[0] == "combine":
        return "combine(" + ",".join(wait_kind(x) for x in w[1]) + ")"
    return w[0]


def gen_retry_spec(tape, cfg: dict[str, Any]) -> dict:
    rich = cfg.get("rich_waits", False)
    pol = {"retry": gen_retry_cond(tape), "wait": gen_wait(tape, rich), "stop": gen_stop(tape) if not cfg.get("stop_attempts_only") else ("attempt", tape.rng_int(2, 6, "stop.n3"))}
    if cfg.get("p_stop_deadline") and tape.chance(cfg["p_stop_deadline"], 100, "stop.deadline?"):
        # an attempt budget combined with a time budget, so that waits run into the deadline
        pol["stop"] = ("any", [pol["stop"], (tape.choice(["delay", "delay", "before_delay"], "stop.dl.kind"), tape.choice([3, 5, 8, 13, 21], "stop.dl"))])
    if tape.chance(cfg.get("p_stop_timedelta", 15), 100, "stop.td?"):
        # a generous time budget given as a timedelta of days next to the real budget: must not change anything
        pol["stop"] = ("any", [pol["stop"], ("delay", 86400 * tape.rng_int(1, 3, "stop.td.days") + tape.choice([0, 5, 30], "stop.td.secs"), "timedelta")])
    if tape.chance(cfg.get("p_user_policy", 25), 100, "pol.user"):
        pol["user"] = tape.choice(["plain", "seed"], "pol.user.kind")
    nexc = tape.rng_int(1, 3, "excs.n")
    excs = [tape.choice(EXC_POOL, "excs") for _ in range(nexc)]
    k = -1 if tape.chance(60, 100, "always-fail") else tape.rng_int(1, 4, "fail.k")
    if cfg.get("p_collect_retry") and tape.chance(cfg["p_collect_retry"], 100, "collecting?"):
        return _collecting(tape, cfg, pol, excs)
    if tape.chance(cfg.get("p_contend", 0), 100, "contend?"):
        return _contended(tape, cfg, pol, excs, k)
    steps = [{"name": "s0", "accepts": ["Start0"], "workers": 1, "sync": False, "retry": pol, "role": "step",
              "scripts": {"Start0": [("work",), ("failseq", excs, k), ("ret", "stop")]}, "returns": [], "stop": True}]
    if tape.chance(cfg.get("p_handler", 40), 100, "handler?"):
        steps.append({"name": "h", "accepts": ["StepFailedEvent"], "workers": 1, "sync": False, "retry": None, "role": "catch",
                      "for_steps": None, "max_recoveries": 1, "scripts": {"StepFailedEvent": [("ret", "stop")]},
                      "returns": [], "stop": True})
    return {"steps": steps, "types": [], "timeout": None, "driver": "result", "disable_validation": False}


def _contended(tape, cfg, pol, excs, k) -> dict:
    """src fans n events out to s0 (1-2 workers): retries and fresh events meet busy worker slots and wait in the step queue"""
    n = tape.rng_int(2, 4, "fan.n")
    workers = tape.rng_int(1, 2, "s0.workers")
    sel = sorted(tape.subset(list(range(n)), "failing") or [0])
    steps = [
        {"name": "src", "accepts": ["Start0"], "workers": 1, "sync": False, "retry": None, "role": "step",
         "scripts": {"Start0": [("psend", "E0", n), ("ret", None)]}, "returns": ["E0"], "stop": False},
        {"name": "s0", "accepts": ["E0"], "workers": workers, "sync": False, "retry": pol, "role": "step",
         "scripts": {"E0": [("work",), ("failsel", excs, k, sel), ("work", "work2"), ("ret", None)]}, "returns": [], "stop": False},
        {"name": "zfin", "accepts": ["Fin"], "workers": 1, "sync": False, "retry": None, "role": "step",
         "scripts": {"Fin": [("pstop",)]}, "returns": [], "stop": True},
    ]
    if tape.chance(cfg.get("p_handler", 40), 100, "handler?"):
        steps.append({"name": "h", "accepts": ["StepFailedEvent"], "workers": 1, "sync": False, "retry": None, "role": "catch",
                      "for_steps": None, "max_recoveries": 1, "scripts": {"StepFailedEvent": [("ret", None)]},
                      "returns": [], "stop": False})
    sibling = tape.chance(cfg.get("p_sibling", 35), 100, "sibling?")
    if sibling:
        # a second consumer of the same event type that never fails and has no policy: another step's retries are none of its business
        steps.insert(2, {"name": "sib", "accepts": ["E0"], "workers": 2, "sync": False, "retry": None, "role": "step",
                         "scripts": {"E0": [("work", "work3"), ("ret", None)]}, "returns": [], "stop": False})
    return {"steps": steps, "types": ["E0"], "timeout": None, "driver": "finish", "disable_validation": False, "contended": True,
            "fan": n, "workers": workers, "sibling": sibling}


def _collecting(tape, cfg, pol, excs) -> dict:
    """the retried step is a collecting step (2-3 workers) whose set never completes: each invocation buffers its event and
    then follows a failure pattern with a successful invocation in the middle.  A successful invocation that started from a
    buffer snapshot which a sibling has extended meanwhile is run again by the engine (stale-snapshot re-run); the failures
    after that re-run are still failures number 3, 4, ... of the same event"""
    n = tape.rng_int(2, 3, "col.n")
    pat = tape.choice([[1, 1, 0, 1, 1], [1, 1, 1, 0, 1], [1, 0, 1, 1, 1]], "col.pattern")
    steps = [
        {"name": "src", "accepts": ["Start0"], "workers": 1, "sync": False, "retry": None, "role": "step",
         "scripts": {"Start0": [("psend", "E0", n), ("ret", None)]}, "returns": ["E0"], "stop": False},
        {"name": "s0", "accepts": ["E0"], "workers": tape.rng_int(2, 3, "col.workers"), "sync": False, "retry": pol, "role": "step",
         "scripts": {"E0": [("work",), ("collect", ["E0"] * 40, None, ("fail", excs[0], pat)), ("ret", None)]}, "returns": [], "stop": False},
        {"name": "zfin", "accepts": ["Fin"], "workers": 1, "sync": False, "retry": None, "role": "step",
         "scripts": {"Fin": [("pstop",)]}, "returns": [], "stop": True},
    ]
    return {"steps": steps, "types": ["E0"], "timeout": None, "driver": "finish", "disable_validation": False, "contended": True,
            "collecting": True, "fan": n}


def deliveries(recs, step="s0"):
    """uid -> attempts (see attempts_of) for every event delivered to `step`, in order of first attempt"""
    uids = []
    for _, _, kind, f in recs:
        if kind == "enter" and f["step"] == step and f["uid"] not in uids:
            uids.append(f["uid"])
    return {u: attempts_of(recs, step, u) for u in uids}


def attempts_of(recs, step="s0", uid=1):
    """[(t_start, t_end, exit kind, enter fields)] of one logical delivery, in order."""
    out = []
    open_ = {}
    for seq, t, kind, f in recs:
        if kind == "enter" and f["step"] == step and f["uid"] == uid:
            open_[f["inv"]] = (t, f)
        elif kind == "exit" and f["inv"] in open_:
            t0, ef = open_.pop(f["inv"])
            out.append({"t0": t0, "t1": t, "exit": f["exit"], "enter": ef, "seq": seq})
    return out
