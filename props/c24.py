"""C24 — handler stores answer queries consistently and retain the newest completions."""
from __future__ import annotations

import itertools
from datetime import datetime, timedelta, timezone

from worlds.simple import simulate_simple
from worlds.stores import TmpDir

ID = "C24"
LEVEL = "exploration"
QUICK_RUNS = 1500
THOROUGH_SECONDS = 600
RULE_TEXT = ("Seeded operation sequences (6-30 ops) over MemoryWorkflowStore(max_completed in {0,1,2,3,None}) and "
             "SqliteWorkflowStore (file DB): update (new running handler, terminal update, repeated terminal updates of one "
             "handler, re-upsert as running), update_handler_status, query with every combination of filters incl. empty lists and "
             "is_idle, delete with >=1 filter, and 'restart' (SQLite reopened). Results compared with a dict model and between "
             "backends; retention of the in-memory store checked after every op. Non-trivial: >= max_completed+1 handlers "
             "completed or a repeated terminal update happened; distinct = op-kind sequence.")
COMPONENTS = {"real": ["MemoryWorkflowStore, SqliteWorkflowStore (stdlib sqlite3, real file), AbstractWorkflowStore.update_handler_status"],
              "stub": [], "sim": ["loop (sequential), op generator, dict model"]}
ASSUMPTIONS = ["'most recently completed' is judged only where both readings (first vs. last terminal update) agree",
               "unfiltered delete is not generated (statement covers deletes with at least one filter)"]
EXPECTED_PROBES = ["eviction", "repeated-terminal-update", "empty-filter-list", "reupsert-running", "restart", "filtered-delete"]
LEVEL_TEXT = "Seeded exploration of operation histories against an executable reference model plus backend-vs-backend comparison; restart as the fault."
LEVEL_NOTE = "Trusted: dict model in this file."

CFG = {}
TERMINAL = ("completed", "failed", "cancelled")
WF = ["wfa", "wfb"]


def matches(h, q):
    for fld, key in (("handler_id_in", "handler_id"), ("run_id_in", "run_id"), ("workflow_name_in", "workflow_name"), ("status_in", "status")):
        v = q.get(fld)
        if v is not None:
            if len(v) == 0 or h[key] not in v:
                return False
    if q.get("is_idle") is not None and q["is_idle"] != (h["idle"] is not None):
        return False
    return True


def run(tape):
    max_completed = tape.choice([0, 1, 2, 3, None], "max_completed")
    nops = tape.rng_int(6, 30, "nops")
    td = TmpDir()

    async def scenario(world):
        from llama_agents.server._store.abstract_workflow_store import HandlerQuery, PersistentHandler
        from llama_agents.server._store.memory_workflow_store import MemoryWorkflowStore
        from llama_agents.server._store.sqlite.sqlite_workflow_store import SqliteWorkflowStore
        mem = MemoryWorkflowStore(max_completed=max_completed)
        sql = SqliteWorkflowStore(td.db())
        stores = {"mem": mem, "sqlite": sql}
        model: dict[str, dict] = {}          # all handlers ever upserted and not deleted (ignores eviction)
        first_done: dict[str, int] = {}
        last_done: dict[str, int] = {}
        clock = [0]
        ops = []
        t0 = datetime(2026, 1, 1, tzinfo=timezone.utc)
        n_ids = [0]
        mem_gone: set = set()      # completed handlers the in-memory store has (legitimately) evicted

        def mk(hid, status, idle=None):
            rec = model.get(hid) or {"handler_id": hid, "run_id": "r" + hid[1:], "workflow_name": tape.choice(WF, "wf"), "idle": None}
            rec = dict(rec, status=status, idle=idle)
            return rec

        def ph(rec):
            return PersistentHandler(handler_id=rec["handler_id"], workflow_name=rec["workflow_name"], status=rec["status"], run_id=rec["run_id"],
                                     started_at=t0, updated_at=t0 + timedelta(seconds=clock[0]),
                                     idle_since=(t0 + timedelta(seconds=rec["idle"])) if rec["idle"] is not None else None)

        async def upsert(rec):
            clock[0] += 1
            mem_gone.discard(rec["handler_id"])
            model[rec["handler_id"]] = rec
            if rec["status"] in TERMINAL:
                first_done.setdefault(rec["handler_id"], clock[0])
                last_done[rec["handler_id"]] = clock[0]
            for st in stores.values():
                await st.update(ph(rec))

        def gen_query():
            q = {}
            ids = sorted(model) + ["h999"]
            for fld, pool in (("handler_id_in", ids), ("run_id_in", ["r" + i[1:] for i in ids]), ("workflow_name_in", WF + ["nope"]),
                              ("status_in", ["running", "completed", "failed", "cancelled"])):
                k = tape.draw(5, "q." + fld)
                if k == 0:
                    q[fld] = []
                    world.probe("empty-filter-list")
                elif k == 1:
                    q[fld] = [tape.choice(pool, "q.one")]
                elif k == 2:
                    q[fld] = tape.subset(pool, "q.sub") or [pool[0]]
            k = tape.draw(4, "q.idle")
            if k == 1:
                q["is_idle"] = True
            elif k == 2:
                q["is_idle"] = False
            return q

        async def check_all(tag):
            # sqlite must hold exactly the model; memory holds model minus evictions
            got_sql = {h.handler_id: h.status for h in await sql.query(HandlerQuery())}
            want = {k: v["status"] for k, v in model.items()}
            if got_sql != want:
                world.violate("C24.query-diff", f"[{tag}] sqlite holds {got_sql}, model {want} (ops {ops})", backend="sqlite", op=tag)
            got_mem = {h.handler_id: h.status for h in await mem.query(HandlerQuery())}
            live = {k for k, v in model.items() if v["status"] not in TERMINAL and k not in mem_gone}
            missing_live = live - set(got_mem)
            if missing_live:
                world.violate("C24.evicted-live", f"[{tag}] non-terminal handlers {sorted(missing_live)} missing from the in-memory store", op=tag)
            extra = (set(got_mem) - set(model)) | (set(got_mem) & mem_gone)
            if extra or any(got_mem[k] != want[k] for k in got_mem if k in want):
                world.violate("C24.query-diff", f"[{tag}] in-memory store holds {got_mem}, model {want}", backend="mem", op=tag)
            term = {k for k, v in model.items() if v["status"] in TERMINAL} - mem_gone
            kept = term & set(got_mem)
            evicted = term - kept
            if evicted:
                world.probe("eviction")
            mem_gone.update(evicted)
            cap = len(term) if max_completed is None else min(len(term), max_completed)
            if len(kept) != cap:
                world.violate("C24.retention", f"[{tag}] in-memory store keeps {len(kept)} completed handlers {sorted(kept)}; {len(term)} exist, "
                              f"max_completed={max_completed} (ops {ops})", how="too-few" if len(kept) < cap else "too-many",
                              repeated_terminal_update=bool(world.probes.get("repeated-terminal-update")))
            else:
                for e in evicted:
                    for r in kept:
                        if first_done[e] > last_done[r]:
                            world.violate("C24.retention", f"[{tag}] evicted {e} (completed at {first_done[e]}) is newer than retained {r} "
                                          f"(last completed at {last_done[r]})", how="wrong-victim",
                                          repeated_terminal_update=bool(world.probes.get("repeated-terminal-update")))

        for i in range(nops):
            if world.violations:
                break
            op = tape.choice(["new", "new", "finish", "finish", "refinish", "rerun", "status", "query", "query", "delete", "restart"], "op")
            ids = sorted(model)
            if op == "new" or not ids:
                n_ids[0] += 1
                ops.append(f"new h{n_ids[0]}")
                await upsert(mk(f"h{n_ids[0]}", "running"))
            elif op == "finish":
                hid = tape.choice(ids, "which")
                st = tape.choice(TERMINAL, "term")
                if model[hid]["status"] in TERMINAL:
                    world.probe("repeated-terminal-update")
                ops.append(f"finish {hid} {st}")
                await upsert(mk(hid, st))
            elif op == "refinish":
                done = [h for h in ids if model[h]["status"] in TERMINAL]
                if not done:
                    continue
                hid = tape.choice(done, "which")
                world.probe("repeated-terminal-update")
                ops.append(f"refinish {hid}")
                await upsert(mk(hid, model[hid]["status"]))
            elif op == "rerun":
                done = [h for h in ids if model[h]["status"] in TERMINAL]
                if not done:
                    continue
                hid = tape.choice(done, "which")
                world.probe("reupsert-running")
                ops.append(f"rerun {hid}")
                first_done.pop(hid, None)
                last_done.pop(hid, None)
                await upsert(mk(hid, "running"))
            elif op == "status":
                hid = tape.choice(ids, "which")
                rid = model[hid]["run_id"]
                idle = tape.choice([None, 5], "idle")
                ops.append(f"update_handler_status {rid} idle={idle}")
                clock[0] += 1
                # memory store may have evicted it: update_handler_status then skips (documented)
                present_mem = bool(await mem.query(HandlerQuery(run_id_in=[rid])))
                for name, st in stores.items():
                    await st.update_handler_status(rid, idle_since=(t0 + timedelta(seconds=idle)) if idle is not None else None)
                model[hid] = dict(model[hid], idle=idle)
                if model[hid]["status"] in TERMINAL:
                    last_done[hid] = clock[0]
                    world.probe("repeated-terminal-update")
            elif op == "query":
                q = gen_query()
                ops.append(f"query {q}")
                want = sorted(k for k, v in model.items() if matches(v, q))
                got_sql = sorted(h.handler_id for h in await sql.query(HandlerQuery(**q)))
                if got_sql != want:
                    world.violate("C24.query-diff", f"sqlite query {q} -> {got_sql}, model {want}", backend="sqlite", op="query")
                mem_all = {h.handler_id for h in await mem.query(HandlerQuery())}
                got_mem = sorted(h.handler_id for h in await mem.query(HandlerQuery(**q)))
                if got_mem != [k for k in want if k in mem_all]:
                    world.violate("C24.query-diff", f"in-memory query {q} -> {got_mem}, model {[k for k in want if k in mem_all]}", backend="mem", op="query")
            elif op == "delete":
                q = gen_query()
                if not any(v is not None for v in q.values()):
                    continue
                world.probe("filtered-delete")
                ops.append(f"delete {q}")
                want = sorted(k for k, v in model.items() if matches(v, q))
                mem_all = {h.handler_id for h in await mem.query(HandlerQuery())}
                n_sql = await sql.delete(HandlerQuery(**q))
                n_mem = await mem.delete(HandlerQuery(**q))
                for k in want:
                    model.pop(k, None)
                    first_done.pop(k, None)
                    last_done.pop(k, None)
                if n_sql != len(want):
                    world.violate("C24.query-diff", f"sqlite delete {q} removed {n_sql}, model {len(want)}", backend="sqlite", op="delete")
                if n_mem != len([k for k in want if k in mem_all]):
                    world.violate("C24.query-diff", f"in-memory delete {q} removed {n_mem}, model {len([k for k in want if k in mem_all])}", backend="mem", op="delete")
            elif op == "restart":
                world.probe("restart")
                world.fault("restart")
                ops.append("restart-sqlite")
                sql = SqliteWorkflowStore(td.db())
                stores["sqlite"] = sql
            world.trace.log("op", op=ops[-1].split()[0] if ops else "init")
            await check_all(ops[-1].split()[0] if ops else "init")
        world._nt = bool(world.probes.get("repeated-terminal-update")) or (max_completed is not None and len(first_done) > max_completed)
        return ops

    try:
        return simulate_simple(tape, CFG, scenario, None, nontrivial=lambda w, o: getattr(w, "_nt", False),
                               sample=lambda w, o: {"max_completed": max_completed, "ops": o})
    finally:
        td.close()
