"""C35 — step lifecycle telemetry on the stream is balanced and ordered."""
from __future__ import annotations

from worlds.engine_common import simulate

ID = "C35"
LEVEL = "exploration"
QUICK_RUNS = 3000
THOROUGH_SECONDS = 600
RULE_TEXT = ("Generated workflows (fan-out, retries, queued events, InputRequiredEvent returns) under seeded "
             "durations/ties; oracle over the publish-side record: per (step, worker) the sequence is "
             "(RUNNING NOT_RUNNING)*, every PREPARING is followed by a RUNNING of the same input type, every body "
             "entry is covered by an open RUNNING slot of its input type, a returned InputRequiredEvent is "
             "published exactly once. A fifth of the runs are snapshotted mid-run (ctx.to_dict), abandoned and resumed (Context.from_dict); the resumed run's stream is held to the same grammar. Non-trivial: >=1 PREPARING and >=6 slot changes; distinct = abstract trace shape.")
COMPONENTS = {"real": ["workflows.* engine"], "stub": ["llama_index_instrumentation"], "sim": ["loop, clock, executor"]}
ASSUMPTIONS = ["FIFO ready queue; instrumentation stub is a no-op"]
EXPECTED_PROBES = ["preparing", "ire-returned", "resumed-from-mid-run-snapshot"]
LEVEL_TEXT = ("Seeded exploration; grammar of StepStateChanged / InputRequiredEvent publications checked on every "
              "run's publish-side record, with 'unless the run ends first' honoured by checking completeness only "
              "at simulator quiescence before the driver lets the run finish.")
LEVEL_NOTE = "Trusted: simulator loop, recording adapter decorator (sees every write_to_event_stream)."

CFG = {"driver": "finish", "p_retry": 40, "p_fail": 25, "fan_max": 4, "p_ask": 25, "p_collect": 35}


def check(world, spec, outcome) -> None:
    slots: dict[tuple, str] = {}          # (step, wid) -> inp name
    claimed: dict[tuple, int] = {}        # (step, wid) -> inv
    inv_slot: dict[int, tuple] = {}
    prep: dict[str, list] = {}
    nprep = nchg = 0
    ire_ret: dict[int, int] = {}
    ire_pub: dict[int, int] = {}
    quiesced_seq = None
    dead = dict(getattr(world, "dead_runs", {}) or {})
    for seq, t, kind, f in world.trace.recs:
        if kind == "snapshot":
            # the first run is abandoned here and a new run resumes from the snapshot: a new stream, the grammar starts afresh
            # ("unless the run ends first" for whatever was open on the old one)
            slots.clear(); claimed.clear(); inv_slot.clear(); prep.clear()
            for u in [u for u in ire_ret if not ire_pub.get(u)]:
                del ire_ret[u]      # returned by a body whose result the abandoned run never got to reduce: the resumed run re-runs that body
            world.probe("resumed-from-mid-run-snapshot")
            continue
        if f.get("run") in dead and seq > dead[f["run"]]:
            continue
        if kind == "publish" and f["ev"] == "StepStateChanged":
            st, step = f["state"], f["step"]
            nchg += 1
            if st == "PREPARING":
                nprep += 1
                prep.setdefault(step, []).append(f["inp"])
                continue
            key = (step, f["worker"])
            if st == "RUNNING":
                if key in slots:
                    world.violate("C35.unbalanced", f"RUNNING on {key} while already RUNNING", seq, kind="double-running")
                slots[key] = f["inp"]
                lst = prep.get(step, [])
                if f["inp"] in lst:
                    lst.remove(f["inp"])
            else:
                if key not in slots:
                    world.violate("C35.unbalanced", f"NOT_RUNNING on {key} without RUNNING", seq, kind="not-running-unmatched")
                slots.pop(key, None)
                claimed.pop(key, None)
        elif kind == "enter":
            step, typ = f["step"], f["ev"]
            cands = [k for k, inp in slots.items() if k[0] == step and inp == typ and k not in claimed]
            if not cands:
                world.violate("C35.order", f"body of {step} entered for {typ} with no open RUNNING slot of that input", seq)
            else:
                claimed[cands[0]] = f["inv"]
                inv_slot[f["inv"]] = cands[0]
        elif kind == "exit":
            k = inv_slot.pop(f["inv"], None)
            if k is not None and claimed.get(k) == f["inv"]:
                claimed.pop(k, None)
            # (slot stays open until NOT_RUNNING; a collect re-run re-claims it)
        elif kind == "emit" and f["ev"] == "Ask0" and f["via"] == "return":
            ire_ret[f["uid"]] = seq
        elif kind == "publish" and f["ev"] == "Ask0" and f.get("uid", -2) >= 0:
            ire_pub[f["uid"]] = ire_pub.get(f["uid"], 0) + 1
            if ire_pub[f["uid"]] > 1:
                world.violate("C35.ire-count", f"InputRequiredEvent uid={f['uid']} published {ire_pub[f['uid']]} times", seq, n="many")
        elif kind == "quiescent" and f.get("phase") == "pre-fin":
            quiesced_seq = seq
            if slots:
                world.violate("C35.unbalanced", f"RUNNING without NOT_RUNNING at quiescence: {sorted(slots)}", seq, kind="trailing-running")
            left = {s: v for s, v in prep.items() if v}
            if left:
                world.violate("C35.preparing-lost", f"PREPARING never followed by RUNNING at quiescence: {left}", seq)
            for u in ire_ret:
                if ire_pub.get(u, 0) != 1:
                    world.violate("C35.ire-count", f"returned InputRequiredEvent uid={u} published {ire_pub.get(u, 0)} times", seq, n=str(ire_pub.get(u, 0)))
    if nprep:
        world.probe("preparing")
    if ire_ret:
        world.probe("ire-returned")
        if spec.get("audit"):
            world.probe("ire-type-also-accepted-by-a-step")
    world._nt = nprep >= 1 and nchg >= 6


def gen(tape, cfg):
    from worlds.engine import gen_spec
    spec = gen_spec(tape, cfg)
    asks = any(a[0] == "ret" and a[1] == "Ask0" for st in spec["steps"] for sc in st["scripts"].values() for a in sc)
    if asks and tape.chance(35, 100, "audit-step?"):
        # the question type is ALSO the input of a step (an audit / logging step): it must still be published for the human
        spec["steps"].insert(-1, {"name": "aud", "accepts": ["Ask0"], "workers": 1, "sync": False, "retry": None, "role": "step",
                                   "scripts": {"Ask0": [("work",), ("ret", None)]}, "returns": [], "stop": False})
        spec["audit"] = True
    return spec


def run(tape):
    # a fifth of the runs: snapshot (ctx.to_dict) at a seeded instant, abandon, resume in a new run (Context.from_dict): the resumed
    # run's stream must obey the same grammar, including for the invocations it restarts
    if tape.draw(5, "c35.resume") == 0:
        from worlds.engine import drive_resume
        return simulate(tape, dict(CFG, p_wait=0), check, gen=gen, scenario=drive_resume, nontrivial=lambda w, s, o: w._nt)
    return simulate(tape, CFG, check, gen=gen, nontrivial=lambda w, s, o: w._nt)
