"""C09 — collect_events returns each full set once without losing events."""
from __future__ import annotations

from collections import Counter

from worlds.engine_common import simulate

ID = "C09"
LEVEL = "exploration"
QUICK_RUNS = 3000
THOROUGH_SECONDS = 600
RULE_TEXT = ("A collecting step (num_workers 1..4) with expected lists [A,B], [A,A,B], [A,B,C], one or two buffers, optional "
             "failing collector with retry; in a third of the runs all events of one type compare equal (==), identity being the "
             "harness's uid only; producers emit 1-4 rounds plus surplus events at tape-chosen instants so that "
             "collector invocations overlap; histories of <=8 logical collect calls are checked for serializability against a "
             "sequential buffer model (all orders consistent with real-time precedence are tried). Non-trivial: >=2 "
             "overlapping collector invocations and >=1 returned set; distinct = abstract trace shape.")
COMPONENTS = {"real": ["workflows.* engine (collect_events, AddCollectedEvent/DeleteCollectedEvent reducer arms)"],
              "stub": ["llama_index_instrumentation"], "sim": ["loop, clock"]}
ASSUMPTIONS = ["surplus events (type no longer missing) are dropped by design and are not counted as loss",
               "residual buffer is read from the live control-loop state, not through ctx.to_dict()"]
EXPECTED_PROBES = ["overlapping-collectors", "set-returned", "surplus-dropped", "rerun-on-stale-snapshot",
                   "value-equal-events-collected"]
LEVEL_TEXT = ("Seeded exploration; direct rules (shape, reuse, phantom) plus a linearizability-style search over the recorded "
              "history of collect calls against a sequential reference buffer.")
LEVEL_NOTE = "Trusted: simulator loop, body logging of collect calls and results, sequential buffer model (30 lines)."

CFG = {"driver": "finish", "grid": [0, 0, 1, 1, 2, 3]}
EXPECTED = [["E0", "E1"], ["E0", "E0", "E1"], ["E0", "E1", "E2"], ["E1", "E0"]]


def gen(tape, cfg):
    exp = tape.choice(EXPECTED, "expected")
    if tape.chance(35, 100, "value-equal-events"):
        # events whose payloads compare equal (identity is the harness's uid only): an engine that recognises "the same
        # event" by == confuses two different events of one type
        exp = [t + "v" for t in exp]
    types = sorted(set(exp))
    two_buf = tape.chance(25, 100, "two-buffers")
    rounds = tape.rng_int(1, 3, "rounds")
    # s0 emits a shuffled sequence of events with work in between
    seq = []
    for t in types:
        n = exp.count(t) * rounds + (tape.rng_int(0, 2, "surplus") if tape.chance(40, 100, "surplus?") else 0)
        seq += [t] * n
    # tape-driven shuffle
    order = []
    pool = list(seq)
    while pool:
        order.append(pool.pop(tape.draw(len(pool), "shuffle")))
    order = order[:8]
    s0 = []
    for t in order:
        if tape.chance(50, 100, "gap"):
            s0.append(("work",))
        s0.append(("send", t, None, 1))
    s0.append(("ret", None))
    fail = tape.chance(20, 100, "collector-fails")
    pol = {"retry": None, "wait": ("none",) if tape.chance(60, 100, "nw") else ("fixed", 1), "stop": ("attempt", 3)} if fail else None
    wait_after = tape.chance(25, 100, "wait-after-collect?")
    cs = {}
    for t in types:
        sc = []
        if tape.chance(70, 100, "pre-work"):
            sc.append(("work",))
        buf = ("b" + t) if (two_buf and t != types[-1] and False) else None
        sc.append(("collect", exp, None))
        if fail:
            sc.append(("fail", "ValueError", 1))
        if wait_after:
            # the invocation that got the complete set then waits for an answer nobody sends; the wait times out and the body goes on
            sc.append(("wait", "Resp0", True, 2, "w", False, "continue"))
        if tape.chance(50, 100, "post-work"):
            sc.append(("work",))
        sc.append(("ret", None))
        cs[t] = sc
    steps = [
        {"name": "s0", "accepts": ["Start0"], "workers": 1, "sync": False, "retry": None, "role": "step",
         "scripts": {"Start0": s0}, "returns": types, "stop": False},
        {"name": "c", "accepts": types, "workers": tape.rng_int(1, 4, "c.workers"), "sync": False, "retry": pol, "role": "step",
         "scripts": cs, "returns": [], "stop": False},
        {"name": "zfin", "accepts": ["Fin"], "workers": 1, "sync": False, "retry": None, "role": "step",
         "scripts": {"Fin": [("ret", "stop")]}, "returns": [], "stop": True},
    ]
    return {"steps": steps, "types": types, "veq": exp[0].endswith("v"), "timeout": None, "driver": "finish", "disable_validation": False, "expected": exp, "wait_after": wait_after}


def setup(world, spec):
    def at_q(handler):
        rs = world.live_runners.get("run1") or []
        if rs:
            st = rs[-1].state.workers["c"].collected_events
            world.trace.log("residual", buf={k: [getattr(e, "uid", None) for e in v] for k, v in st.items()})
    world.quiescent_hooks.append(at_q)


def seq_model(expected, buffer, typ):
    """sequential reference: returns (result 'ret'|'buf'|'drop', new buffer)"""
    remaining = Counter(expected) - Counter(t for _, t in buffer)
    if remaining == Counter([typ]):
        return "ret", []
    if typ in remaining:
        return "buf", None
    return "drop", None


def check(world, spec, outcome) -> None:
    recs = world.trace.recs
    exp = spec["expected"]
    typ_of = {}
    calls: dict = {}     # uid -> {first_enter, last_exit, result}
    open_c = set()
    max_open = 0
    returned_in: dict = {}
    delivered = set()
    residual = None
    dispatched: dict = {}
    for seq, t, kind, f in recs:
        if kind == "emit" and f["uid"] is not None:
            typ_of[f["uid"]] = f["ev"]
        elif kind == "enter" and f["step"] == "c":
            u = f["uid"]
            delivered.add(u)
            c = calls.setdefault(u, {"first": seq, "last": None, "result": None, "n": 0, "failed": False})
            c["n"] += 1
            open_c.add(f["inv"])
            max_open = max(max_open, len(open_c))
        elif kind == "exit" and f["step"] == "c":
            open_c.discard(f["inv"])
            c = calls[f["uid"]]
            c["last"] = seq
            if str(f["exit"]).startswith("raised"):
                c["failed"] = True
        elif kind == "collect" and f["step"] == "c":
            u = f["uid"]
            calls[u]["result"] = f["got"]
            if f["got"] is not None:
                world.probe("set-returned")
                if f["gtypes"] != exp:
                    world.violate("C09.malformed", f"collect_events returned types {f['gtypes']}, expected {exp}", seq)
                for g in f["got"]:
                    if g not in delivered:
                        world.violate("C09.phantom", f"returned uid={g} was never delivered to the collecting step", seq)
        elif kind == "tick" and f["tick"] == "step_result" and f["step"] == "c":
            if f["uid"] in calls:
                calls[f["uid"]]["done"] = seq      # completion acknowledged by the engine (NOT_RUNNING follows)
        elif kind == "tick" and f["tick"] == "add_event" and f["ev"] in spec["types"] and not (f.get("attempts") or 0):
            dispatched[f["uid"]] = seq
        elif kind == "residual":
            residual = f["buf"]
    # reuse (count only the final result of each logical call: retries may legitimately re-collect)
    for u, c in calls.items():
        if c["result"]:
            for g in c["result"]:
                returned_in.setdefault(g, []).append(u)
    for g, us in returned_in.items():
        if len(us) > 1:
            world.violate("C09.reused", f"event uid={g} appears in the sets returned to calls {us}", calls[us[1]]["first"])
    if spec.get("veq") and returned_in:
        world.probe("value-equal-events-collected")
    if max_open >= 2:
        world.probe("overlapping-collectors")
    if any(c["n"] > 1 and not c["failed"] for c in calls.values()):
        world.probe("rerun-on-stale-snapshot")
    # serializability
    done = [u for u, c in calls.items() if c["last"] is not None]
    for u, c in calls.items():
        c["start"] = dispatched.get(u, c["first"])
    if residual is not None and len(done) == len(calls) and 1 <= len(calls) <= 8:
        order_ok = _search(calls, typ_of, exp, residual.get("default", []), world)
        if not order_ok:
            world.violate("C09.not-serializable", f"no sequential order of the {len(calls)} collect calls explains the returned sets "
                          f"{ {u: c['result'] for u, c in calls.items()} } and residual {residual}", recs[-1][0],
                          reused=any(len(v) > 1 for v in returned_in.values()))
    world._nt = max_open >= 2 and bool(returned_in)


def _search(calls, typ_of, exp, residual, world) -> bool:
    ids = sorted(calls)
    # an operation spans from its dispatch tick to the tick that acknowledges its completion
    pred = {u: {v for v in ids if calls[v].get("done", calls[v]["last"]) < calls[u].get("start", calls[u]["first"])} for u in ids}
    seen = set()

    def dfs(done: frozenset, buf: tuple) -> bool:
        if len(done) == len(ids):
            mine = [b for b, _ in buf]
            if mine == list(residual):
                return True
            # the engine may keep extra *surplus* events in its buffer (events the sequential buffer would have
            # dropped); that loses nothing.  Every event the model buffers must be there, and every extra one must be
            # of a type that is already complete in the buffer.
            if not set(mine) <= set(residual):
                return False
            have = Counter(t for _, t in buf)
            need = Counter(exp)
            return all(have[typ_of.get(x)] >= need[typ_of.get(x)] for x in residual if x not in mine)
        key = (done, buf)
        if key in seen:
            return False
        seen.add(key)
        for u in ids:
            if u in done or not pred[u] <= done:
                continue
            typ = typ_of.get(u)
            kind, _ = seq_model(exp, buf, typ)
            obs = calls[u]["result"]
            if kind == "ret":
                by = {}
                for b, t in list(buf) + [(u, typ)]:
                    by.setdefault(t, []).append(b)
                want = [by[t].pop(0) for t in exp]
                if obs != want:
                    continue
                nb = ()
            else:
                if obs is not None:
                    continue
                if kind == "drop":
                    world.probe("surplus-dropped")
                nb = buf + ((u, typ),) if kind == "buf" else buf
            if dfs(done | {u}, nb):
                return True
        return False

    return dfs(frozenset(), ())


def run(tape):
    return simulate(tape, CFG, check, gen=gen, setup=setup, nontrivial=lambda w, s, o: w._nt)
