"""C20 — concurrent state updates are never lost."""
from __future__ import annotations

import asyncio
import itertools
import json

from worlds.simple import simulate_simple
from worlds.stores import TmpDir

ID = "C20"
LEVEL = "exploration"
QUICK_RUNS = 2000
THOROUGH_SECONDS = 600
RULE_TEXT = ("2-4 tasks issue 3-6 operations in total against one run's state: set(key,v), set_state(replace), clear and "
             "edit_state blocks that read-modify-write a counter with a tape-chosen await inside the block; start times and the "
             "inner awaits are on a grid producing overlaps and ties. Three arrangements: InMemoryStateStore shared; one "
             "SqliteStateStore object shared; one SqliteStateStore object per task on the same run id (how the server hands "
             "stores to step invocations: _ServerInternalRunAdapter.get_state_store creates one per adapter). The final state "
             "must equal the result of some serial order of the operations that respects real-time precedence (all <=720 orders "
             "tried). A quarter of the runs use a typed child state (ChildSt(BaseSt)) on the in-memory / SQLite store with parent-type "
             "set_state merges, field sets, replaces and clears racing edit_state blocks that modify a parent or a child field. Non-trivial: >=2 edit_state blocks overlapped in time; distinct = abstract trace shape."
             " Edit blocks are held 0-2 s or (a model call inside the block) 45 s / 700 s; on the shared-SQLite arrangement a crowd of 140 other runs may use their own state stores while a block is open.")
COMPONENTS = {"real": ["InMemoryStateStore, SqliteStateStore (stdlib sqlite3, file DB), SqliteWorkflowStore.create_state_store"],
              "stub": [], "sim": ["loop, clock, sequential state model"]}
ASSUMPTIONS = ["each edit_state block counts as one atomic operation (statement)", "sqlite3 calls are synchronous; interleaving happens only at awaits"]
EXPECTED_PROBES = ["typed-child-state", "parent-merge-during-edit-block", "overlapping-edit-blocks", "per-task-store-objects", "shared-sqlite-store", "memory-store", "crowd-of-other-runs"]
LEVEL_TEXT = "Seeded exploration of operation timings; linearizability-style search of the final state against a sequential model."
LEVEL_NOTE = "Trusted: simulator loop, sequential model (set/replace/clear/increment on a dict)."

CFG = {}


def apply(state, op):
    k = op[0]
    s = dict(state)
    if k == "set":
        s[op[1]] = op[2]
    elif k == "replace":
        s = dict(op[1])
    elif k == "clear":
        s = {}
    elif k == "inc":
        s[op[1]] = s.get(op[1], 0) + 1
    return s


def apply_typed(state, op):
    k = op[0]
    s = dict(state)
    if k == "set":
        s[op[1]] = op[2]
    elif k == "replace":
        s = dict(op[1])
    elif k == "clear":
        s = {"a": 0, "extra": "x"}
    elif k == "inc":
        s["a"] = s["a"] + 1
    elif k == "app":
        s["extra"] = s["extra"] + "e"
    elif k == "merge":
        s["a"] = op[1]          # parent fields overwrite, the child's own field is kept
    return s


# an edit_state block may stay open for a long time (a model call inside it): waiters must keep waiting, however long
LONG = [45, 700]


def _run_typed(tape):
    """typed child state (ChildSt(BaseSt)) with parent-type set_state merges racing edit_state blocks"""
    arrangement = tape.choice(["mem-typed", "sqlite-typed"], "arrangement.t")
    ntasks = tape.rng_int(2, 3, "ntasks")
    nops = tape.rng_int(3, 5, "nops")
    grid = [0, 0, 1, 2]
    plan = []
    for i in range(nops):
        kind = tape.choice(["inc", "app", "app", "merge", "merge", "set", "replace", "clear"], "op.kind")
        if kind in ("inc", "app"):
            op = (kind, tape.choice(grid + LONG, "op.inner"))
        elif kind == "merge":
            op = ("merge", 20 + i)
        elif kind == "set":
            key = tape.choice(["a", "extra"], "op.key")
            op = ("set", key, 10 + i if key == "a" else f"s{i}")
        elif kind == "replace":
            op = ("replace", {"a": 100 + i, "extra": f"r{i}"})
        else:
            op = ("clear",)
        plan.append({"task": tape.draw(ntasks, "op.task"), "delay": tape.choice(grid, "op.delay"), "op": op, "id": i})
    td = TmpDir()

    async def scenario(world):
        from llama_agents.server._store.sqlite.sqlite_workflow_store import SqliteWorkflowStore
        from workflows.context.state_store import InMemoryStateStore
        from worlds.stores import BaseSt, ChildSt
        world.probe("typed-child-state")
        if arrangement == "mem-typed":
            st = InMemoryStateStore(ChildSt())
        else:
            st = SqliteWorkflowStore(td.db()).create_state_store("run1", state_type=ChildSt)
            await st.set_state(ChildSt())
        spans = {}
        open_edit = [0]

        async def do(p):
            op = p["op"]
            spans[p["id"]] = [world.trace.log("op-start", id=p["id"], task=p["task"], op=op[0]), None]
            if op[0] in ("inc", "app"):
                async with st.edit_state() as s_:
                    open_edit[0] += 1
                    v = s_.a if op[0] == "inc" else s_.extra
                    await asyncio.sleep(op[1] or 0)
                    if op[0] == "inc":
                        s_.a = v + 1
                    else:
                        s_.extra = v + "e"
                    open_edit[0] -= 1
            elif op[0] == "set":
                await st.set(op[1], op[2])
            elif op[0] == "merge":
                if open_edit[0]:
                    world.probe("parent-merge-during-edit-block")
                await st.set_state(BaseSt(a=op[1]))
            elif op[0] == "replace":
                await st.set_state(ChildSt(**op[1]))
            else:
                await st.clear()
            spans[p["id"]][1] = world.trace.log("op-end", id=p["id"], task=p["task"], op=op[0])

        async def task(t):
            for p in [p for p in plan if p["task"] == t]:
                if p["delay"]:
                    await asyncio.sleep(p["delay"])
                await do(p)
        await asyncio.gather(*[task(t) for t in range(ntasks)])
        final = await st.get_state()
        fin = {"a": final.a, "extra": final.extra}
        world.trace.log("final", state=fin)
        ids = [p["id"] for p in plan]
        ops = {p["id"]: p["op"] for p in plan}
        pred = {a: {b for b in ids if spans[b][1] < spans[a][0]} for a in ids}
        ok = False
        for order in itertools.permutations(ids):
            pos = {x: i for i, x in enumerate(order)}
            if any(pos[b] > pos[a] for a in ids for b in pred[a]):
                continue
            s = {"a": 0, "extra": "x"}
            for x in order:
                s = apply_typed(s, ops[x])
            if s == fin:
                ok = True
                break
        if not ok:
            world.violate("C20.not-serializable", f"final state {fin} equals no serial order of {[ops[i] for i in ids]} ({arrangement})",
                          arrangement=arrangement, parent_merge_during_edit=bool(world.probes.get("parent-merge-during-edit-block")))
        return fin
    try:
        return simulate_simple(tape, CFG, scenario, None, nontrivial=lambda w, o: bool(w.probes.get("parent-merge-during-edit-block")),
                               sample=lambda w, o: {"arrangement": arrangement, "plan": plan, "final": o})
    finally:
        td.close()


def run(tape):
    if tape.draw(4, "typed?") == 0:
        return _run_typed(tape)
    arrangement = tape.choice(["mem", "sqlite-shared", "sqlite-per-task", "sqlite-per-task"], "arrangement")
    crowd_at = tape.choice([None, None, None, 0, 1], "crowd") if arrangement == "sqlite-shared" else None
    ntasks = tape.rng_int(2, 4, "ntasks")
    nops = tape.rng_int(3, 6, "nops")
    grid = [0, 0, 1, 2]
    plan = []
    for i in range(nops):
        kind = tape.choice(["inc", "inc", "inc", "set", "replace", "clear"], "op.kind")
        if kind == "inc":
            op = ("inc", tape.choice(["c", "d"], "op.key"), tape.choice(grid + LONG, "op.inner"))
        elif kind == "set":
            op = ("set", tape.choice(["c", "x"], "op.key"), 10 + i)
        elif kind == "replace":
            op = ("replace", {"x": 100 + i})
        else:
            op = ("clear",)
        plan.append({"task": tape.draw(ntasks, "op.task"), "delay": tape.choice(grid, "op.delay"), "op": op, "id": i})
    # two more things callers really do: (a) give up on a store call (timeout / cancellation) at a tape-chosen moment - a cancelled
    # call has either taken effect or not, nothing in between; (b) start a task from inside an edit_state block that outlives the
    # block and writes to the store later
    for p in plan:
        p["cancel_after"] = tape.choice([None, None, None, None, 0, 0, 1], "op.cancel")
    spawned = []
    for p in list(plan):
        if p["op"][0] == "inc" and tape.chance(25, 100, "op.spawn"):
            j = len(plan) + len(spawned)
            wkind = tape.choice(["replace", "clear", "set"], "spawn.kind")
            wop = ("replace", {"x": 200 + j}) if wkind == "replace" else (("clear",) if wkind == "clear" else ("set", "c", 50 + j))
            spawned.append({"task": p["task"], "delay": tape.choice([0, 1, 2, 3], "spawn.delay"), "op": wop, "id": j, "cancel_after": None, "parent": p["id"]})
    td = TmpDir()

    async def scenario(world):
        from llama_agents.server._store.sqlite.sqlite_workflow_store import SqliteWorkflowStore
        from workflows.context.state_store import DictState, InMemoryStateStore
        world.probe({"mem": "memory-store", "sqlite-shared": "shared-sqlite-store", "sqlite-per-task": "per-task-store-objects"}[arrangement])
        if arrangement == "mem":
            shared = InMemoryStateStore(DictState())
            store_for = lambda t: shared  # noqa: E731
        else:
            ws = SqliteWorkflowStore(td.db())
            if arrangement == "sqlite-shared":
                shared = ws.create_state_store("run1")
                store_for = lambda t: shared  # noqa: E731
            else:
                per = {t: ws.create_state_store("run1") for t in range(ntasks)}
                store_for = lambda t: per[t]  # noqa: E731
        spans = {}
        open_edit = [0]

        children: list = []
        cancelled_ops: set = set()

        async def do(st, p):
            try:
                return await do_guarded(st, p)
            except asyncio.CancelledError:
                raise
            except Exception as e:  # noqa: BLE001
                # none of these calls may fail on a healthy store: an error out of the store's own locking / saving is a broken
                # operation, not a harness problem
                spans[p["id"]][1] = world.trace.log("op-error", id=p["id"], exc=type(e).__name__)
                cancelled_ops.add(p["id"])
                world.violate("C20.op-error", f"{p['op'][0]} (op {p['id']}) raised {type(e).__name__}: {e} ({arrangement})", arrangement=arrangement, exc=type(e).__name__)

        async def do_guarded(st, p):
            if p.get("cancel_after") is None:
                return await do_op(st, p)
            # the caller gives up after cancel_after seconds (plus one loop iteration)
            t = asyncio.ensure_future(do_op(st, p))
            await asyncio.sleep(p["cancel_after"])
            await asyncio.sleep(0)
            if not t.done():
                t.cancel()
                world.fault("store-call-cancelled")
            try:
                await t
            except asyncio.CancelledError:
                cancelled_ops.add(p["id"])
                spans[p["id"]][1] = world.trace.log("op-cancelled", id=p["id"], task=p["task"], op=p["op"][0])

        async def do_op(st, p):
            op = p["op"]
            spans[p["id"]] = [world.trace.log("op-start", id=p["id"], task=p["task"], op=op[0]), None]
            if op[0] == "inc":
                entered = False
                try:
                    async with st.edit_state() as s:
                        entered = True
                        open_edit[0] += 1
                        if open_edit[0] >= 2:
                            world.probe("overlapping-edit-blocks")
                        v = s.get(op[1], 0)
                        for c in [c for c in spawned if c["parent"] == p["id"]]:
                            world.probe("task-spawned-inside-edit-block")
                            children.append(asyncio.ensure_future(child(st, c)))
                        if op[2]:
                            await asyncio.sleep(op[2])
                        else:
                            await asyncio.sleep(0)
                        s[op[1]] = v + 1
                finally:
                    if entered:
                        open_edit[0] -= 1
            elif op[0] == "set":
                await st.set(op[1], op[2])
            elif op[0] == "replace":
                await st.set_state(DictState(**op[1]))
            else:
                await st.clear()
            spans[p["id"]][1] = world.trace.log("op-end", id=p["id"], task=p["task"], op=op[0])

        async def child(st, c):
            if c["delay"]:
                await asyncio.sleep(c["delay"])
            if open_edit[0]:
                world.probe("spawned-task-writes-during-edit-block")
            await do(st, c)

        async def task(t):
            st = store_for(t)
            for p in [p for p in plan if p["task"] == t]:
                if p["delay"]:
                    await asyncio.sleep(p["delay"])
                await do(st, p)
        async def crowd():
            # many OTHER runs of the same server use their state stores meanwhile (each its own run id): no effect on run1's locking
            if crowd_at:
                await asyncio.sleep(crowd_at)
            world.probe("crowd-of-other-runs")
            for r in range(140):
                await ws.create_state_store(f"other{r}").set("k", r)
        extra = [crowd()] if (crowd_at is not None and arrangement == "sqlite-shared") else []
        await asyncio.gather(*[task(t) for t in range(ntasks)], *extra)
        if children:
            await asyncio.gather(*children)
        final = await store_for(0).get_state()
        fin = json.loads(json.dumps(dict(final._data)))
        world.trace.log("final", state=fin)
        # serial orders consistent with precedence; a cancelled call is optional (it took effect completely or not at all)
        allp = [p for p in plan + spawned if p["id"] in spans]
        ops = {p["id"]: p["op"] for p in allp}
        opt = sorted(cancelled_ops)
        ok = False
        for mask in range(1 << len(opt)):
            dropped = {opt[i] for i in range(len(opt)) if mask >> i & 1}
            ids = [p["id"] for p in allp if p["id"] not in dropped]
            pred = {a: {b for b in ids if spans[b][1] is not None and spans[b][1] < spans[a][0]} for a in ids}
            for order in itertools.permutations(ids):
                pos = {x: i for i, x in enumerate(order)}
                if any(pos[b] > pos[a] for a in ids for b in pred[a]):
                    continue
                s = {}
                for x in order:
                    s = apply(s, ops[x])
                if s == fin:
                    ok = True
                    break
            if ok:
                break
        ids = [p["id"] for p in allp]
        if not ok:
            # name a completed write that vanished: an inc whose effect is missing in every explanation
            n_inc = sum(1 for p in plan if p["op"][0] == "inc")
            world.violate("C20.not-serializable", f"final state {fin} equals no serial order of {[ops[i] for i in ids]} ({arrangement})",
                          arrangement=arrangement, overlapping_edits=bool(world.probes.get("overlapping-edit-blocks")),
                          replace_inside_edit=any(ops[a][0] in ("replace", "clear", "set") and ops[b][0] == "inc" and
                                                  spans[b][0] < spans[a][0] and spans[a][1] < spans[b][1] for a in ids for b in ids))
        return fin

    try:
        return simulate_simple(tape, CFG, scenario, None, nontrivial=lambda w, o: bool(w.probes.get("overlapping-edit-blocks")),
                               sample=lambda w, o: {"arrangement": arrangement, "plan": plan, "final": o})
    finally:
        td.close()
