"""C02 — every emitted event reaches each accepting step exactly once."""
from __future__ import annotations

from worlds.engine_common import simulate

ID = "C02"
LEVEL = "exploration"
QUICK_RUNS = 4000
THOROUGH_SECONDS = 600
RULE_TEXT = ("Generated graphs with overlapping accepted types, targeted ctx.send_event, external sends (accepted, "
             "unhandled), waiters on types that steps also accept, InputRequiredEvent returns; driver lets the run reach "
             "simulator quiescence before finishing it, so 'unless the run ends first' is decided without timing "
             "assumptions. Non-trivial: >=1 event with >=2 recipients or a targeted/external send, AND >=1 queued "
             "delivery; distinct = abstract trace shape.")
COMPONENTS = {"real": ["workflows.* engine"], "stub": ["llama_index_instrumentation"], "sim": ["loop, clock, executor"]}
ASSUMPTIONS = ["waiter precedence as in the statement: a matching registered waiter takes the event as wait result and the "
               "waiting step does not also get it as a new input",
               "a wait that already has its outcome (answered or timed out, its step not yet re-run) is not waiting any more: a further matching event is routed like any other event"]
EXPECTED_PROBES = ["multi-recipient", "targeted", "external-send", "unhandled", "waiter-resolved", "queued"]
LEVEL_TEXT = ("Seeded exploration; oracle = static routing table from the generated spec plus a small waiter model fed by "
              "the processed-tick order, compared per tick with the engine's published dispatches and per uid with body "
              "entries; loss judged only at quiescence.")
LEVEL_NOTE = "Trusted: simulator loop, recording adapter decorator (tick + publish order), body logging."

CFG = {"driver": "finish", "p_retry": 30, "p_fail": 20, "p_target": 35, "p_external": 50, "p_unhandled": 25,
       "p_wait": 25, "p_ask": 15, "p_resp_step": 30, "n_work": (1, 5), "n_types": (1, 5), "p_subclass": 35}


def _h(u):
    return tuple(u) if isinstance(u, list) else u


def check(world, spec, outcome) -> None:
    recs = world.trace.recs
    steps = sorted(spec["steps"], key=lambda s: s["name"])
    accepts = {s["name"]: set(s["accepts"]) for s in steps}
    emitted: dict = {}      # uid -> (type, target, seq)
    ire = {"Ask0"}
    waiters: dict[str, list[dict]] = {s["name"]: [] for s in steps}
    add_ticks: dict = {}
    entered: dict = {}      # (step, uid) -> count
    wait_got: dict = {}     # uid -> set(step)
    ended = False
    quiesced = False
    multi = targeted = unhandled = wres = queued = False
    # group: for each tick, the publishes that follow it before the next tick
    cur = None
    groups = []
    for seq, t, kind, f in recs:
        if kind == "tick":
            cur = {"seq": seq, "f": f, "pubs": []}
            groups.append(cur)
        elif kind == "publish" and cur is not None:
            cur["pubs"].append((seq, f))
    gi = {g["seq"]: g for g in groups}

    for seq, t, kind, f in recs:
        if kind == "emit" and f["uid"] is not None and f["via"] in ("send", "return", "ext", "start"):
            emitted[f["uid"]] = (f["ev"], f.get("target"), seq, f.get("key"))
            if f["via"] == "ext":
                pass
            if f.get("target"):
                targeted = True
        elif kind == "enter":
            u = _h(f["uid"])
            entered[(f["step"], u)] = entered.get((f["step"], u), 0) + 1
            typ = f["ev"]
            if typ not in accepts.get(f["step"], ()) and typ != "StepFailedEvent":
                world.violate("C02.foreign", f"step {f['step']} invoked with {typ} uid={u}, accepts {sorted(accepts[f['step']])}", seq, how="type")
            tgt = emitted.get(u, (None, None))[1] if not isinstance(u, tuple) else None
            if tgt and tgt != f["step"]:
                world.violate("C02.foreign", f"event uid={u} targeted at {tgt} delivered to {f['step']}", seq, how="target")
        elif kind == "wait-result":
            wait_got.setdefault(_h(f["got"]), set()).add(f["step"])
            if f["gtype"] != next((w["type"] for w in world.wait_calls if w["step"] == f["step"]), f["gtype"]):
                world.violate("C02.foreign", f"wait in {f['step']} returned {f['gtype']}", seq, how="wait-type")
        elif kind == "publish" and f["ev"] in ("StopEvent", "Stop1", "WorkflowFailedEvent", "WorkflowCancelledEvent", "WorkflowTimedOutEvent"):
            ended = True
        elif kind == "quiescent" and f.get("phase") == "pre-fin":
            quiesced = True
            # loss, judged where the run provably did not end first
            for u, (typ, tgt, eseq, key) in emitted.items():
                if typ in ("Fin",):
                    continue
                n = add_ticks.get(u, 0)
                if n == 0:
                    world.violate("C02.lost", f"event uid={u} ({typ}) was never processed by the run", eseq, level="mailbox")
                    continue
                R = [s for s in accepts if typ in accepts[s] and (tgt is None or tgt == s)]
                for s in R:
                    if entered.get((s, u), 0) == 0 and s not in wait_got.get(u, ()) and not _overwrote(u, s, world):
                        world.violate("C02.lost", f"event uid={u} ({typ}) never reached accepting step {s}", eseq, level="step")
        elif kind == "tick":
            tk = f["tick"]
            g = gi[seq]
            if tk == "step_result":
                completed = any(r[0] == "result" for r in f["res"])
                for r in f["res"]:
                    if r[0] == "add_waiter":
                        _, wid, wtype, wto, req, _ask = r
                        lst = waiters[f["step"]]
                        ex = next((w for w in lst if w["id"] == wid), None)
                        nw = {"id": wid, "type": wtype, "req": dict(req), "resolved": False, "orig": _h(f["uid"])}
                        if ex is not None:
                            lst[lst.index(ex)] = nw
                        else:
                            lst.append(nw)
                    elif r[0] == "del_waiter" and completed:
                        waiters[f["step"]][:] = [w for w in waiters[f["step"]] if w["id"] != r[1]]
            elif tk == "waiter_timeout":
                for w in waiters.get(f["step"], []):
                    if w["id"] == f.get("waiter") and not w["resolved"]:
                        w["timed_out"] = True
            elif tk == "add_event":
                u = _h(f["uid"])
                typ = f["ev"]
                retry = (f.get("attempts") or 0) >= 1
                if not retry and not isinstance(u, tuple) and u is not None:
                    add_ticks[u] = add_ticks.get(u, 0) + 1
                    if add_ticks[u] > 1:
                        world.violate("C02.duplicate", f"event uid={u} ({typ}) processed {add_ticks[u]} times by the run", seq, level="mailbox")
                key = emitted.get(u, (None, None, None, None))[3] if not isinstance(u, tuple) else None
                exp: list[str] = []
                W = set()
                for s in sorted(waiters):
                    for w in waiters[s]:
                        # a wait that already has its outcome (answered or timed out, step not yet re-run) is no longer waiting
                        if w["resolved"] or w.get("timed_out"):
                            continue
                        if w["type"] == typ and all(key == v for k, v in w["req"].items() if k == "key") and \
                                (not w["req"] or set(w["req"]) == {"key"}):
                            W.add(s)
                            w["resolved"] = True
                            exp.append(s)
                if W:
                    wres = True
                for s in sorted(accepts):
                    if s in W:
                        continue
                    if typ in accepts[s] and (f.get("target") is None or f["target"] == s):
                        exp.append(s)
                if typ == "StepFailedEvent":
                    exp = [f["target"]] if f.get("target") else exp
                obs = [pf["step"] for pseq, pf in g["pubs"] if pf["ev"] == "StepStateChanged" and pf["state"] in ("RUNNING", "PREPARING")]
                if any(pf["ev"] == "StepStateChanged" and pf["state"] == "PREPARING" for _, pf in g["pubs"]):
                    queued = True
                if len(exp) >= 2:
                    multi = True
                if sorted(obs) != sorted(exp):
                    miss = sorted(set(exp) - set(obs))
                    extra = sorted(set(obs) - set(exp))
                    dup = sorted(x for x in set(obs) if obs.count(x) > exp.count(x) and x in exp)
                    how = "missing" if miss else ("extra-step" if extra else "twice")
                    world.violate("C02.route", f"event uid={u} ({typ}, target={f.get('target')}) dispatched to {obs}, expected {exp}", seq, how=how,
                                  waiter=bool(W))
                uh = [pf for pseq, pf in g["pubs"] if pf["ev"] == "UnhandledEvent"]
                want_uh = 1 if (not exp and typ not in ire) else 0
                if want_uh:
                    unhandled = True
                if len(uh) != want_uh or (uh and uh[0]["etype"] != typ):
                    world.violate("C02.unhandled-count", f"event uid={u} ({typ}) with recipients {exp}: {len(uh)} UnhandledEvent published "
                                  f"({[x['etype'] for x in uh]}), expected {want_uh}", seq, got=len(uh), want=want_uh)
    for name, v in (("multi-recipient", multi), ("targeted", targeted), ("unhandled", unhandled), ("waiter-resolved", wres), ("queued", queued)):
        if v:
            world.probe(name)
    world._nt = (multi or targeted or world.faults.get("external-send")) and queued


def _overwrote(u, s, world) -> bool:
    """uid u resolved a waiter slot of step s that a later matching event overwrote before s re-ran
    (statement is silent; C10 judges waiter behaviour)."""
    return any(w["step"] == s for w in world.wait_calls)


def run(tape):
    return simulate(tape, CFG, check, nontrivial=lambda w, s, o: w._nt)
