"""C30 — a workflow instance never runs more concurrent runs than its limit."""
from __future__ import annotations

import asyncio

from worlds import events as EV
from worlds.engine import build_workflow
from worlds.engine_common import simulate

ID = "C30"
LEVEL = "exploration"
QUICK_RUNS = 1500
THOROUGH_SECONDS = 600
RULE_TEXT = ("Two workflow instances (A with num_concurrent_runs 1..4, B with its own limit or none) on one runtime; 2-8 runs "
             "started on A and 0-4 on B at tape-chosen instants, step durations on a grid, some runs failing or cancelled so that "
             "slots are released on every exit path; a third of the programs fan out so that the run ends while sibling steps are in flight (one with an awaited clean-up shorter than the engine's grace period); in a third of the scenarios some runs of A are started from inside a step of another workflow's run. Non-trivial: more runs were started on an instance than its limit and at "
             "least one had to wait; distinct = abstract trace shape.")
COMPONENTS = {"real": ["workflows.* engine, BasicRuntime._maybe_acquire_max_concurrent_runs"], "stub": ["llama_index_instrumentation"],
              "sim": ["loop, clock"]}
ASSUMPTIONS = ["a run 'executes steps' from the moment its control loop starts until the loop has exited and its last step body has stopped"]
EXPECTED_PROBES = ["address-reused-by-new-instance", "run-had-to-wait", "limit-reached", "slot-released-by-failure", "slot-released-by-cancel"]
LEVEL_TEXT = "Seeded exploration of start instants/durations/exit paths; oracle counts live control loops per instance from the runner registry."
LEVEL_NOTE = "Trusted: simulator loop, runner registry."

CFG = {"grid": [0, 1, 1, 2, 3, 5], "max_steps": 80_000}


def gen(tape, cfg):
    steps = [
        {"name": "s0", "accepts": ["Start0"], "workers": 1, "sync": False, "retry": None, "role": "step",
         "scripts": {"Start0": [("work",), ("fail", "ValueError", 1) if False else ("work",), ("ret", "E0")]}, "returns": ["E0"], "stop": False},
        {"name": "w0", "accepts": ["E0"], "workers": 1, "sync": False, "retry": None, "role": "step",
         "scripts": {"E0": [("work",), ("ret", "stop")]}, "returns": [], "stop": True},
    ]
    if tape.chance(35, 100, "fanout?"):
        # the run ends (fin returns the StopEvent) while sibling steps of the same run are still in flight; one of them cleans up for
        # a while when cancelled (shorter than the engine's 0.5 s grace): the run executes steps until that is over
        steps = [steps[0],
                 {"name": "fin", "accepts": ["E0"], "workers": 1, "sync": False, "retry": None, "role": "step",
                  "scripts": {"E0": [("work",), ("ret", "stop")]}, "returns": [], "stop": True},
                 {"name": "idle", "accepts": ["E0"], "workers": 1, "sync": False, "retry": None, "role": "step",
                  "scripts": {"E0": [("work",), ("work",), ("ret", None)]}, "returns": [], "stop": False},
                 {"name": "careful", "accepts": ["E0"], "workers": 1, "sync": False, "retry": None, "role": "step", "slow_cancel": tape.choice([0.125, 0.25, 0.375], "slow-cancel.d"),
                  "scripts": {"E0": [("work",), ("work",), ("ret", None)]}, "returns": [], "stop": False}]
    return {"steps": steps, "types": ["E0"], "timeout": None, "driver": "result", "disable_validation": False,
            "fanout": len(steps) > 2, "launcher": tape.chance(35, 100, "launcher?"),
            "limit_a": tape.rng_int(1, 4, "limit.a"), "limit_b": tape.choice([None, 1, 2], "limit.b"),
            "n_a": tape.rng_int(2, 8, "n.a"), "n_b": tape.rng_int(0, 4, "n.b"),
            "generations": tape.choice([None, None, (4, 1), (3, 2), (1, 3), (2, 1)], "generations"), "n_gen": tape.rng_int(2, 5, "n.gen")}


class AddressSpace:
    """Seam for one more source of nondeterminism: object addresses.  BasicRuntime keys its semaphores by id(workflow); whether a
    new instance gets the address of a dead one is the allocator's choice.  Here id() (the name bound in workflows.plugins.basic)
    hands out small integers and REUSES the address of an instance as soon as that instance has really been collected
    (weakref.finalize), lowest free address first: the most adversarial legal allocator, and a deterministic one."""

    def __init__(self) -> None:
        self.addr: dict[int, int] = {}
        self.free: list[int] = []
        self.next = 1
        self.reused = 0

    def id(self, obj) -> int:
        import weakref
        rid = _REAL_ID(obj)
        a = self.addr.get(rid)
        if a is not None:
            return a
        if self.free:
            a = self.free.pop(0)
            self.reused += 1
        else:
            a = self.next
            self.next += 1
        self.addr[rid] = a
        try:
            weakref.finalize(obj, self._release, rid, a)
        except TypeError:
            pass
        return a

    def _release(self, rid: int, a: int) -> None:
        if self.addr.pop(rid, None) is not None:
            self.free.append(a)
            self.free.sort()


_REAL_ID = id


async def _generation(world, spec, tag: str, limit, n: int) -> None:
    """one short-lived workflow instance: n overlapping runs, all awaited, then every reference dropped"""
    wf = build_workflow(spec, world, num_concurrent_runs=limit)
    hs = []
    for i in range(n):
        rid = f"{tag}{i}"
        world.trace.log("run-requested", run=rid, inst=tag, fate="ok")
        hs.append(wf.run(start_event=EV.Start0(uid=world.uid()), run_id=rid))
    await asyncio.gather(*[h._result_task for h in hs], return_exceptions=True)
    await world.loop.quiesce()


async def scenario(world, spec):
    import gc
    import weakref
    import workflows.plugins.basic as basic_mod
    space = AddressSpace()
    basic_mod.id = space.id          # module-level name lookup: the seam
    world._space = space
    if spec.get("generations"):
        # a dead instance's address is handed to the next instance: limits must not be inherited
        g1, g2 = spec["generations"]
        await _generation(world, spec, "G", g1, spec["n_gen"])
        world.live_runners.clear()
        gc.collect()
        await _generation(world, spec, "H", g2, spec["n_gen"])
        world.live_runners.clear()
        gc.collect()
        if space.reused:
            world.probe("address-reused-by-new-instance")
    wa = build_workflow(spec, world, num_concurrent_runs=spec["limit_a"])
    wb = build_workflow(spec, world, num_concurrent_runs=spec["limit_b"])
    plan = [("A", i) for i in range(spec["n_a"])] + [("B", i) for i in range(spec["n_b"])]
    order = []
    while plan:
        order.append(plan.pop(world.tape.draw(len(plan), "order")))
    handlers = {}
    fates = {}
    from_step: list = []
    for inst, i in order:
        d = world.tape.choice([0, 0, 0, 1, 2], "start.gap")
        if d:
            await asyncio.sleep(d)
        rid = f"{inst}{i}"
        wf = wa if inst == "A" else wb
        if spec.get("launcher") and inst == "A" and world.tape.chance(50, 100, "from-step?"):
            # this run is started from inside a step of another workflow's run (a parent fanning out to a shared child instance)
            from_step.append(rid)
            fates[rid] = "ok"
            continue
        # "abandon": the caller gives up on the run the asyncio way (asyncio.wait_for(handler, t) / task.cancel()): the run's task is
        # hard-cancelled wherever it is, possibly while still queued behind the limit
        fate = world.tape.choice(["ok", "ok", "ok", "fail", "cancel", "abandon"], "fate")
        fates[rid] = fate
        start = EV.Start0(uid=world.uid())
        if fate == "fail":
            world.fail_counts[("__fate__", rid)] = 1
        h = wf.run(start_event=start, run_id=rid)
        world.trace.log("run-requested", run=rid, inst=inst, fate=fate)
        handlers[rid] = h
        if fate == "cancel":
            async def canc(h=h, rid=rid):
                await asyncio.sleep(world.tape.choice([0, 1, 2, 3], "cancel.at"))
                if not h.is_done():
                    world.trace.log("cancel-request", run=rid)
                    await h.cancel_run()
            asyncio.ensure_future(canc())
        elif fate == "abandon":
            async def abandon(h=h, rid=rid):
                await asyncio.sleep(world.tape.choice([0, 1, 2, 3], "abandon.at"))
                if not h.is_done():
                    world.trace.log("cancel-request", run=rid, hard=True)
                    world.probe("run-hard-cancelled")
                    h._result_task.cancel()       # what cancelling a task that awaits the handler does
            asyncio.ensure_future(abandon())
    if from_step:
        from workflows import Context, Workflow, step
        from workflows.events import StartEvent, StopEvent
        world.probe("runs-started-from-inside-a-step")

        class Launcher(Workflow):
            @step
            async def go(self, ctx: Context, ev: StartEvent) -> StopEvent:
                hs = []
                for rid in from_step:
                    world.trace.log("run-requested", run=rid, inst="A", fate="ok", from_step=True)
                    h = wa.run(start_event=EV.Start0(uid=world.uid()), run_id=rid)
                    handlers[rid] = h
                    hs.append(h)
                await asyncio.gather(*[h._result_task for h in hs], return_exceptions=True)
                return StopEvent(result="launched")
        Launcher.__module__ = __name__
        lh = Launcher(timeout=None, runtime=world.runtime).run(run_id="L0")
        handlers["L0"] = lh
    world._spec = spec
    q = world.loop.quiesce()
    allt = asyncio.ensure_future(asyncio.gather(*[h._result_task for h in handlers.values()], return_exceptions=True))
    await asyncio.wait([q, allt], return_when=asyncio.FIRST_COMPLETED)
    world.trace.log("quiescent", phase="end", done=[r for r, h in handlers.items() if h.is_done()])
    return {"handlers": handlers, "fates": fates}


def setup(world, spec):
    # runs whose fate is 'fail' raise in their first step
    orig = world.run_body

    async def run_body(s, ctx, ev):
        rid = world._run_id_of(ctx)
        if s["name"] == "s0" and world.fail_counts.pop(("__fate__", rid), None):
            rec = world._enter(s, ctx, ev)
            try:
                await world.work()
                world.fault("step-failure")
                raise ValueError(f"fate/{rid}")
            finally:
                world._exit(rec, "raised:ValueError")
        return await orig(s, ctx, ev)
    world.run_body = run_body


def check(world, spec, outcome) -> None:
    recs = world.trace.recs
    limit = {"A": spec["limit_a"], "B": spec["limit_b"]}
    live: dict[str, set] = {"A": set(), "B": set(), "L": set()}
    limit["L"] = None
    loops: dict[str, set] = {"A": set(), "B": set(), "L": set(), "G": set(), "H": set()}
    bodies: dict[str, int] = {}
    hard_cancelled: set = set()
    if spec.get("generations"):
        limit["G"], limit["H"] = spec["generations"]
        live["G"], live["H"] = set(), set()
    requested: dict[str, float] = {}
    started = set()
    waited = False
    fates = outcome["fates"] if outcome else {}
    for seq, t, kind, f in recs:
        if kind == "run-requested":
            requested[f["run"]] = t
        elif kind == "cancel-request" and f.get("hard") and f["run"] in started:
            hard_cancelled.add(f["run"])
        elif kind == "cancel-request" and f["run"] not in started:
            # cancelled by the user before it got a slot: it need not execute any more
            requested.pop(f["run"], None)
        elif kind == "runner-start":
            inst = f["run"][0]
            live[inst].add(f["run"])
            loops[inst].add(f["run"])
            started.add(f["run"])
            if t > requested.get(f["run"], t):
                waited = True
                world.probe("run-had-to-wait")
            if limit[inst] is not None:
                if len(live[inst]) == limit[inst]:
                    world.probe("limit-reached")
                if len(live[inst]) > limit[inst]:
                    # root-cause attribute: runs counted only because a step body of theirs is still executing after their control loop
                    # exited, and how that loop exited
                    stale = sorted(r for r in live[inst] if r not in loops[inst])
                    how = "none" if not stale else ("hard-cancel" if all(r in hard_cancelled for r in stale) else "normal-exit")
                    world.violate("C30.over-limit", f"instance {inst}: {len(live[inst])} runs executing steps ({sorted(live[inst])}; control loop already gone for {stale}), "
                                  f"num_concurrent_runs={limit[inst]}", seq, over=min(len(live[inst]) - limit[inst], 3), body_outlived_loop=how)
        elif kind == "enter" and f.get("run"):
            bodies[f["run"]] = bodies.get(f["run"], 0) + 1
        elif kind == "exit" and f.get("run"):
            bodies[f["run"]] = bodies.get(f["run"], 0) - 1
            # a run executes steps until its control loop has exited AND its last step body has stopped
            if bodies[f["run"]] <= 0 and f["run"] not in loops.get(f["run"][0], set()):
                live[f["run"][0]].discard(f["run"])
        elif kind == "runner-exit":
            inst = f["run"][0]
            loops[inst].discard(f["run"])
            if bodies.get(f["run"], 0) <= 0:
                live[inst].discard(f["run"])
            else:
                world.probe("body-still-executing-after-loop-exit")
            if fates.get(f["run"]) == "fail":
                world.probe("slot-released-by-failure")
            elif fates.get(f["run"]) in ("cancel", "abandon"):
                world.probe("slot-released-by-cancel")
        elif kind == "stable":
            for inst in sorted(live):
                pending = [r for r in requested if r[0] == inst and r not in started]
                cap = limit[inst]
                if pending and (cap is None or len(live[inst]) < cap):
                    others = sorted(r for o in live if o != inst for r in live[o])
                    world.violate("C30.cross-instance" if (others or inst in "GH") else "C30.starved",
                                  f"instance {inst} has waiting runs {pending} while only {len(live[inst])} of {cap} slots are used "
                                  f"(other instances live: {others})", seq)
        elif kind == "quiescent" and f.get("phase") == "end":
            for r in requested:
                if r not in started:
                    world.violate("C30.starved", f"run {r} never started executing", seq)
    world._nt = waited


def run(tape):
    import workflows.plugins.basic as basic_mod
    try:
        return simulate(tape, CFG, check, gen=gen, scenario=scenario, setup=setup, nontrivial=lambda w, s, o: w._nt)
    finally:
        basic_mod.__dict__.pop("id", None)
