"""C36 — idle runs are released after the idle timeout and reloaded on demand (in-process stack, and the DBOS stack on the emulated dbos)."""
from __future__ import annotations

import asyncio

from worlds import events as EV
from worlds import engine_common
from worlds.idle import expected_keys, gen_hitl, handler_row, send
from worlds.server import ServerWorld

ID = "C36"
LEVEL = "exploration"
QUICK_RUNS = 800
THOROUGH_SECONDS = 600
RULE_TEXT = ("In-process server stack (SQLite or memory store). Human-in-the-loop programs that become genuinely idle (steps wait "
             "for a response without timeout, or all work is done) - outputs are returned, not sent, so idleness announcements are "
             "truthful; idle_timeout in {2,4,8,60}; the driver answers each wait at a tape-chosen instant before, exactly at, and "
             "after the release, then finishes the run. Oracle at stable instants and quiescence: a truly idle run is gone from "
             "the live-runner registry after idle_timeout (+0) of inactivity, its handler row carries idle_since, it is not released "
             "earlier than idle_timeout after the last activity, and the next event reloads it and the run ends with the reference "
             "result. DBOS half (a fifth of the runs): the same obligations on DBOSIdleReleaseDecorator + lifecycle lock + DBOSRuntime under the server "
             "stack, on the EMULATED dbos package, in two arms: as wired, and with the lifecycle row created by the harness. Non-trivial: >=1 release happened and >=1 "
             "event was sent to a released run; distinct = abstract trace shape.")
COMPONENTS = {"real": ["DBOSIdleReleaseDecorator, SqliteRunLifecycleLock, DBOSRuntime adapters, TickPersistenceDecorator, EventInterceptorDecorator (DBOS half)", "IdleReleaseDecorator (release, reload lock, reload-on-demand), PersistenceDecorator.context_from_ticks, server stack, stores, engine"],
              "stub": ["llama_index_instrumentation", "dbos: EMULATED (DBOS half only)", "sqlalchemy, asyncpg (name only)"], "sim": ["loop, clocks, runner registry, responder"]}
ASSUMPTIONS = ["activity = a processed tick other than an idle check, or an external send", "DBOS half: dbos itself is emulated (stubs/dbos, DESIGN 9.6); everything of the repository above it is real"]
EXPECTED_PROBES = ["unconsumed-event-to-idle-run", "dbos-as-wired", "dbos-row-created-by-harness", "store-latency-arm", "released", "event-to-released-run", "event-before-release", "release-and-send-same-instant", "reloaded"]
LEVEL_TEXT = "Seeded exploration of response instants around the release instant; liveness rules judged at stable instants / quiescence only."
LEVEL_NOTE = "Trusted: simulator loop/clocks, runner registry."

CFG = {"driver": "finish", "backends": ["sqlite", "memory"], "quiesce_gap": 500.0, "grid": [0, 1, 1, 2], "p_wait": 85, "allow_send_event": False, "retry_delays": [0]}


def gen(tape, cfg):
    return gen_hitl(tape, cfg)


async def scenario(world, spec):
    it = float(world.tape.choice([2, 4, 8, 60], "idle_timeout"))
    world.cfg["idle_timeout"] = it
    # half of the runs on a store whose calls really suspend (as a networked database would)
    world.cfg["store_latency"] = bool(world.tape.draw(2, "store-latency?"))
    if world.cfg["store_latency"]:
        world.probe("store-latency-arm")
    inc = world.new_incarnation()
    wf = inc.add_workflow("wf", spec)
    await inc.start()
    start = EV.Start0(uid=world.uid())
    hd = await inc.call(inc.service.start_workflow(wf, "h1", start_event=start))
    world._run = hd.run_id
    world._it = it
    # stable-instant monitor: a truly idle run must be gone after idle_timeout of inactivity
    st = {"idle_pub_t": None, "last_act": 0.0}
    world._mon = st

    def on_tick(seq, run, tick):
        if type(tick).__name__ != "TickIdleCheck":
            st["last_act"] = world.clock.t
    world.tick_hooks.append(on_tick)

    def stable():
        if st["idle_pub_t"] is None:
            return
        live = world.live_runners.get(world._run) or []
        if not live:
            # released: that idle period is over; a reloaded control loop starts a new one with its own announcement
            st["idle_pub_t"] = None
            return
        quiet_for = world.clock.t - max(st["last_act"], st["idle_pub_t"])
        # on a store whose calls suspend, the release itself (query, status write) takes a few of those suspensions
        slack = (16.0 / 1024) if world.cfg.get("store_latency") else 1e-9
        if live and quiet_for > it + slack and not world.open_bodies:
            world.violate("C36.not-released", f"run idle since t={st['idle_pub_t']} (last activity t={st['last_act']}), idle_timeout={it}, "
                          f"still has a live control loop at t={world.clock.t}", backend=world.backend)
            st["idle_pub_t"] = None
    world.stable_checks.append(stable)

    def on_pub(seq, run, event):
        if type(event).__name__ == "WorkflowIdleEvent" or (type(event).__name__ == "UnhandledEvent" and getattr(event, "idle", False)):
            # both are the run saying "nothing can happen without new input"
            st["idle_pub_t"] = world.clock.t
        elif type(event).__name__ == "StepStateChanged" and event.step_state.name == "RUNNING":
            st["idle_pub_t"] = None
    world.publish_hooks.append(on_pub)
    answered = set()

    async def answer(c, d):
        if d and world.tape.chance(30, 100, "stray?"):
            # before the answer, an event that no step consumes reaches the idle run (the engine answers with UnhandledEvent): the
            # run is as idle afterwards as before, and the idle timeout counts from there
            await asyncio.sleep(d / 2)
            d = world.tape.choice([d / 2, it + 3], "stray.then")
            world.probe("unconsumed-event-to-idle-run")
            await send(world, inc, world.mk("X0", -1, "ext"), "stray")
        if d:
            await asyncio.sleep(d)
        released = not world.live_runners.get(world._run)
        if released:
            world.probe("event-to-released-run")
            row = handler_row(world)
            if row and row[0] == "running" and not row[1]:
                world.violate("C36.not-marked-idle", f"run released from memory but handler row has no idle_since ({row})", backend=world.backend)
        else:
            world.probe("event-before-release")
        await send(world, inc, world.mk("Resp0", -1, "ext", key=c["key"]), "response")

    async def responder():
        # answers every wait d seconds after it was first seen (d relative to the release instant of an idle run)
        for _ in range(400):
            for c in list(world.wait_calls):
                if c["key"] not in answered:
                    answered.add(c["key"])
                    d = world.tape.choice([0, 1, it / 2, it - 1, it, it + 1, it + 3], "resp.delay")
                    inc.spawn(answer(c, d))
            await asyncio.sleep(1)
            if world.ended:
                return
    rt = inc.spawn(responder())
    for _ in range(8):
        await world.loop.quiesce() if False else await asyncio.sleep(it + 6)
        if all(c["key"] in answered for c in world.wait_calls) and not world.open_bodies:
            q = world.loop.quiesce()
            rt.cancel()
            await q
            if all(c["key"] in answered for c in world.wait_calls):
                break
            rt = inc.spawn(responder())
    rt.cancel()
    await world.loop.quiesce()
    world.trace.log("quiescent", phase="pre-fin")
    await send(world, inc, EV.Fin(uid=world.uid()), "fin")
    await world.loop.quiesce()
    world.trace.log("quiescent", phase="end")
    return {"final": await _final(world, inc)}


async def _final(world, inc):
    import json
    from llama_agents.server._store.abstract_workflow_store import HandlerQuery
    hs = await inc.store.query(HandlerQuery(handler_id_in=["h1"]))
    if not hs:
        return None
    h = hs[0]
    res = None
    if h.result is not None:
        res = json.dumps({"value": {"result": h.result.result}})
    return (h.status, h.error, res)


def check(world, spec, outcome) -> None:
    recs = world.trace.recs
    it = world._it
    last_act = 0.0
    sends = {}
    processed = set()
    n_rel = 0
    reloaded = False
    exits = []
    open_inv: set = set()
    acts: list = []
    unacked: set = set()
    rel_with_work = False
    spurious_idle = False      # an idle announcement was made while a sent event was still unprocessed (C03 finding)
    done_before: set = set()
    aborted = False
    # second root of a release that cuts into work (recorded as C26-release-races-send): the idle announcement the release rests
    # on was published while an external send was between its call and its arrival in the run's mailbox
    put_seq = {}
    for q_, _, k_, f_ in recs:
        if k_ == "mailbox-put" and f_.get("tick") == "add_event":
            put_seq.setdefault(f_["uid"], q_)
    last_idle_pub = None
    last_idle_t = None
    send_in_flight = False
    for seq, t, kind, f in recs:
        if kind == "publish" and f["ev"] == "WorkflowIdleEvent":
            last_idle_pub = seq
            last_idle_t = t
        if kind == "enter":
            open_inv.add(f["inv"])
            unacked.add((f["step"], str(f["uid"])))
        elif kind == "exit":
            open_inv.discard(f["inv"])
        if kind == "tick" and f["tick"] == "step_result":
            unacked.discard((f["step"], str(f["uid"])))
            if any(r[0] == "result" for r in f["res"]):
                done_before.add((f["step"], str(f["uid"])))
        if kind == "publish" and f["ev"] == "WorkflowIdleEvent" and any(u not in processed for u in sends):
            spurious_idle = True
        if kind == "enter" and aborted and (f["step"], str(f["uid"])) in done_before:
            world.violate("C36.reload-failed", f"step {f['step']} ran again for input {f['uid']} after a release/reload although it had completed before",
                          seq, how="restarted-completed-work", backend=world.backend, after_spurious_idle=spurious_idle, send_in_flight_at_idle=send_in_flight)
        if kind == "tick" and f["tick"] not in ("idle_check",):
            last_act = t
            acts.append(t)
            if f["tick"] == "add_event":
                processed.add(f["uid"])
        elif kind == "send":
            last_act = t
            acts.append(t)
            sends[f["uid"]] = (seq, t)
        elif kind == "runner-exit":
            # abort by idle release (the run did not end)
            ended = any(k2 == "publish" and f2["ev"] in ("StopEvent", "WorkflowFailedEvent", "WorkflowCancelledEvent", "WorkflowTimedOutEvent") and s2 < seq
                        for s2, _, k2, f2 in recs[max(0, seq - 40):seq])
            if not ended:
                n_rel += 1
                world.probe("released")
                aborted = True
                with_work = bool(open_inv or unacked or any(u not in processed for u in sends))
                rel_with_work = rel_with_work or with_work
                # ... or, on a store whose calls suspend, the send was called while the marker write of that announcement was still
                # under way (same few suspensions): either way send_event's clear and the idle stamp raced outside the reload lock
                win = (16.0 / 1024) if world.cfg.get("store_latency") else 0.0
                if with_work and last_idle_pub is not None and any(
                        (sseq < last_idle_pub and (put_seq.get(u) is None or put_seq[u] > last_idle_pub)) or
                        (win and last_idle_t is not None and 0 <= st_ - last_idle_t <= win) for u, (sseq, st_) in sends.items()):
                    send_in_flight = True
                    world.probe("idle-marked-while-send-in-flight")
                # activity at the very instant of the release is a tie (either order is legitimate)
                # (on a store whose calls suspend the abort lags the release decision by those suspensions: same tie window)
                tie = (16.0 / 1024) if world.cfg.get("store_latency") else 1e-9
                la = max([x for x in acts if x < t - tie], default=0.0)
                if t - la < it - 1e-9:
                    world.violate("C36.early-release", f"released at t={t}, last activity at t={la}, idle_timeout={it}", seq, backend=world.backend,
                                  released_with_work=with_work, after_spurious_idle=spurious_idle, send_in_flight_at_idle=send_in_flight)
                if any(abs(st - t) < 1e-9 for _, st in sends.values()):
                    world.probe("release-and-send-same-instant")
        elif kind == "runner-start" and n_rel:
            reloaded = True
    if reloaded:
        world.probe("reloaded")
    if rel_with_work:
        world.probe("released-with-work-in-progress")
    for u, (sseq, st) in sends.items():
        if u not in processed:
            world.violate("C36.reload-failed", f"event uid={u} sent at t={st} was never processed by the run (releases so far: {n_rel})", sseq, how="event-not-processed", backend=world.backend, released_with_work=rel_with_work, after_spurious_idle=spurious_idle, send_in_flight_at_idle=send_in_flight)
    final = outcome.get("final") if outcome else None
    import json
    want = expected_keys(spec, world)
    got = None
    if final and final[2]:
        try:
            got = sorted(json.loads(final[2])["value"]["result"])
        except Exception:  # noqa: BLE001
            got = None
    if final is None or final[0] != "completed":
        world.violate("C36.reload-failed", f"run did not complete after release/reload: handler {final}", how="not-completed", backend=world.backend, released_with_work=rel_with_work, after_spurious_idle=spurious_idle, send_in_flight_at_idle=send_in_flight)
    elif got != want:
        world.violate("C36.reload-failed", f"run continued to a different result: {got}, expected {want}", how="different-result", backend=world.backend, released_with_work=rel_with_work, after_spurious_idle=spurious_idle, send_in_flight_at_idle=send_in_flight)
    world._nt = n_rel >= 1 and bool(world.probes.get("event-to-released-run"))


# ---------------------------------------------------------------------------------------------------------------------------
# DBOS half: the same obligations on DBOSIdleReleaseDecorator(EventInterceptorDecorator(TickPersistenceDecorator(DBOSRuntime)))
# under ServerRuntimeDecorator + _WorkflowService, on the EMULATED dbos package (DESIGN 9.6). Two arms: "as-wired" (exactly what the
# repository assembles) and "row-created" (the harness calls RunLifecycleLock.create(run_id) right after the start, standing in for
# the caller that the repository does not have, so that the release/resume protocol behind it is exercised at all).

CFG_DBOS = {"driver": "finish", "quiesce_gap": 500.0, "grid": [0, 1, 1, 2], "p_wait": 100, "allow_send_event": False, "retry_delays": [0], "max_steps": 400_000}


def _dbos_rows(world):
    import sqlite3
    conn = sqlite3.connect(world.tmp.db())
    try:
        lc = conn.execute("SELECT state FROM run_lifecycle").fetchall()
        h = conn.execute("SELECT status, idle_since, result FROM handlers WHERE handler_id='h1'").fetchone()
    except sqlite3.Error:
        return None, None
    finally:
        conn.close()
    return (lc[0][0] if lc else None), h


async def scenario_dbos(world, spec):
    it = float(world.tape.choice([2, 4, 8], "idle_timeout"))
    world.cfg["idle_timeout"] = it
    with_row = world.tape.draw(3, "dbos.row?") != 0
    world.probe("dbos-row-created-by-harness" if with_row else "dbos-as-wired")
    inc = world.new_incarnation(server_chain=True)
    wf = inc.add_workflow("wf", spec)
    await inc.start()
    hd = await inc.call(inc.service.start_workflow(wf, "h1", start_event=EV.Start0(uid=world.uid())))
    rid = hd.run_id
    if with_row:
        lc = await inc.call(inc.chain._get_lifecycle())
        await inc.call(lc.create(rid))
    obs = []
    answered = set()
    for _ in range(6):
        await world.loop.quiesce()
        pend = [c for c in world.wait_calls if c["key"] not in answered]
        # the run is idle now (waiting for answers, or finished its work); when did it say so?
        t_idle = max([t for _, t, k, f in world.trace.recs if k == "publish" and f["ev"] == "WorkflowIdleEvent"], default=None)
        if t_idle is None:
            break
        d = world.tape.choice([0, 1, it / 2, it + 1, it + 3], "dbos.resp.delay") if pend else it + 2
        if d > it:
            # past the idle timeout: observe before touching the run again
            await asyncio.sleep(max(0.0, t_idle + it + 1 - world.clock.t))
            state, h = _dbos_rows(world)
            live = len(world.live_runners.get(rid) or [])
            obs.append({"t_idle": t_idle, "t": world.clock.t, "live": live, "lifecycle": state, "idle_since": bool(h and h[1])})
            world.trace.log("dbos-observe", **obs[-1])
            await asyncio.sleep(max(0.0, t_idle + d - world.clock.t))
        elif d:
            await asyncio.sleep(d)
        if not pend:
            break
        for c in pend:
            answered.add(c["key"])
            released = not (world.live_runners.get(rid) or [])
            world.probe("event-to-released-run" if released else "event-before-release")
            ev = world.mk("Resp0", -1, "ext", key=c["key"])
            world.trace.log("send", uid=ev.uid, ev="Resp0", key=c["key"], label="response")
            try:
                await inc.call(inc.service.send_event("h1", ev))
                world.trace.log("send-returned", uid=ev.uid)
            except BaseException as e:  # noqa: BLE001
                world.trace.log("send-rejected", uid=ev.uid, exc=type(e).__name__, msg=str(e)[:100])
    await world.loop.quiesce()
    world.trace.log("quiescent", phase="pre-fin")
    fin = EV.Fin(uid=world.uid())
    world.trace.log("send", uid=fin.uid, ev="Fin", key=None, label="fin")
    try:
        await inc.call(inc.service.send_event("h1", fin))
    except BaseException as e:  # noqa: BLE001
        world.trace.log("send-rejected", uid=fin.uid, exc=type(e).__name__, msg=str(e)[:100])
    await world.loop.quiesce()
    world.trace.log("quiescent", phase="end")
    state, h = _dbos_rows(world)
    return {"obs": obs, "with_row": with_row, "final": h, "lifecycle": state, "it": it}


def check_dbos(world, spec, outcome) -> None:
    import json
    if not outcome:
        world._nt = False
        return
    row = "created-by-harness" if outcome["with_row"] else "never-created"
    released_once = False
    for o in outcome["obs"]:
        if o["live"]:
            world.violate("C36.not-released", f"DBOS stack: run idle since t={o['t_idle']}, idle_timeout={outcome['it']}, still has a live control loop at t={o['t']} "
                          f"(lifecycle row: {o['lifecycle']})", backend="dbos", lifecycle_row=row)
        else:
            released_once = True
            world.probe("released")
            if not o["idle_since"]:
                world.violate("C36.not-marked-idle", f"DBOS stack: run released (lifecycle {o['lifecycle']}) but the handler row has no idle_since", backend="dbos", lifecycle_row=row)
    if released_once and world.probes.get("event-to-released-run"):
        world.probe("reloaded")
    # root-cause attributes of a failed reload on this stack: the exception the resume raised (the service swallows it), and whether
    # the run had already been resumed once before (its persisted tick log then lacks the event that resumed it: DBOSIdleRelease
    # folds the pending tick into the rebuilt state without persisting it)
    errs = [f for _, _, k, f in world.trace.recs if k == "reload-error"]
    first_err = min([q for q, _, k, f in world.trace.recs if k == "reload-error"], default=None)
    earlier = sum(1 for q, _, k, f in world.trace.recs if k == "dbos-resumed" and (first_err is None or q < first_err))
    rerr = {"resume_error": (errs[0]["exc"] + ": " + errs[0]["msg"]) if errs else None, "earlier_resumes": "none" if not earlier else "one-or-more"}
    sent = {f["uid"]: f for _, _, k, f in world.trace.recs if k == "send"}
    # processed = its tick was reduced by a control loop, or (an event folded into the rebuilt state of a resumed run never shows
    # up as a tick of its own) it was handed to a wait / entered a step
    processed = {f["uid"] for _, _, k, f in world.trace.recs if k == "tick" and f["tick"] == "add_event"}
    processed |= {f["got"] for _, _, k, f in world.trace.recs if k == "wait-result"}
    processed |= {f["uid"] for _, _, k, f in world.trace.recs if k == "enter" and not isinstance(f["uid"], list)}
    rejected = {f["uid"]: f for _, _, k, f in world.trace.recs if k == "send-rejected"}
    for u, f in sent.items():
        if u not in processed:
            world.violate("C36.reload-failed", f"DBOS stack: event uid={u} ({f['ev']}) sent to the run was never processed (send: {rejected.get(u, {}).get('exc', 'returned')} "
                          f"{rejected.get(u, {}).get('msg', '')})", how="event-not-processed", backend="dbos", lifecycle_row=row, released_before=released_once, **rerr)
    h = outcome["final"]
    want = expected_keys(spec, world)
    got = None
    try:
        got = sorted(json.loads(h[2])["value"]["result"]) if h and h[2] else None
        if got is None and h and h[2]:
            got = sorted(json.loads(h[2]).get("result") or [])
    except Exception:  # noqa: BLE001
        pass
    if h is None or h[0] != "completed":
        world.violate("C36.reload-failed", f"DBOS stack: run did not complete: handler {h and h[:2]}", how="not-completed", backend="dbos", lifecycle_row=row, released_before=released_once, **rerr)
    elif got != want:
        world.violate("C36.reload-failed", f"DBOS stack: run continued to a different result: {got}, expected {want}", how="different-result", backend="dbos", lifecycle_row=row,
                      released_before=released_once, lost_store_keys=bool(got is not None and set(got) < set(want)), **rerr)
    world._nt = bool(outcome["obs"])


def _run_dbos(tape):
    from worlds.dbos import DbosWorld
    return engine_common.simulate(tape, CFG_DBOS, check_dbos, gen=gen, scenario=scenario_dbos, nontrivial=lambda w, s, o: w._nt, world_cls=DbosWorld)


def run(tape):
    if tape.draw(5, "c36.stack") == 0:
        return _run_dbos(tape)
    return engine_common.simulate(tape, CFG, check, gen=gen, scenario=scenario, nontrivial=lambda w, s, o: w._nt, world_cls=ServerWorld)
