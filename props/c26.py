"""C26 — idle release and resume never lose an event or double-run a workflow (in-process stack)."""
from __future__ import annotations

import asyncio

from worlds import events as EV
from worlds import engine_common
from worlds.idle import gen_hitl, handler_row, send
from worlds.obs import delivery_windows, retry_windows
from worlds.server import ServerWorld

ID = "C26"
LEVEL = "exploration"
QUICK_RUNS = 800
THOROUGH_SECONDS = 600
RULE_TEXT = ("In-process server stack (SQLite or memory store), idle_timeout in {2,4}. Human-in-the-loop programs with fan-out via "
             "ctx.send_event and return, delayed retries, waits; 1-3 external senders fire responses, accepted events and unhandled "
             "events at instants drawn around the release instant (just before, exactly at, while released, two at the same "
             "instant). Oracle: every send whose call returned is processed by the run by quiescence (unless the run ended first); "
             "at every release (control loop aborted without a terminal event) the run has no executing body, unprocessed step "
             "result, unprocessed sent event or pending delayed retry; the runner registry never shows two live control loops for "
             "one run; no step body keeps executing after its control loop exited. DBOS lifecycle-lock half: not exercised (dbos "
             "not importable). Non-trivial: >=1 send reached a released run or raced a release at the same instant; distinct = "
             "abstract trace shape.")
COMPONENTS = {"real": ["IdleReleaseDecorator + KeyedLock reload lock, IdleReleaseExternalRunAdapter.send_event, PersistenceDecorator, server stack, engine"],
              "stub": ["llama_index_instrumentation"], "sim": ["loop, clocks, runner registry, senders"]}
ASSUMPTIONS = ["claim limited to the in-process stack; the DBOS lifecycle lock is not exercised"]
EXPECTED_PROBES = ["store-latency-arm", "send-to-released-run", "send-at-release-instant", "two-senders-same-instant", "released", "release-while-working"]
LEVEL_TEXT = "Seeded exploration of sender instants around release/reload; safety rules at every runner start/exit, liveness (event processed) at quiescence."
LEVEL_NOTE = "Trusted: simulator loop/clocks, runner registry (subclass of the private _ControlLoopRunner, behaviour unchanged)."

CFG = {"driver": "finish", "backends": ["sqlite", "memory"], "quiesce_gap": 500.0, "grid": [0, 1, 1, 2, 3], "p_wait": 60,
       "allow_send_event": True, "retry_delays": [0, 0, 1, 2], "log_mailbox": True}


def gen(tape, cfg):
    return gen_hitl(tape, cfg)


async def scenario(world, spec):
    it = float(world.tape.choice([2, 4], "idle_timeout"))
    world.cfg["idle_timeout"] = it
    # half of the runs: store I/O really suspends (networked database), so senders and the release timer interleave inside
    # their store round trips
    world.cfg["store_latency"] = bool(world.tape.draw(2, "store-latency?"))
    if world.cfg["store_latency"]:
        world.probe("store-latency-arm")
    world._it = it
    inc = world.new_incarnation()
    wf = inc.add_workflow("wf", spec)
    await inc.start()
    start = EV.Start0(uid=world.uid())
    hd = await inc.call(inc.service.start_workflow(wf, "h1", start_event=start))
    world._run = hd.run_id

    def stable():
        live = {getattr(r, "_sim_runner_no", None) for r in (world.live_runners.get(world._run) or [])}
        for inv, rec in world.open_bodies.items():
            if rec.get("runner") is not None and rec["runner"] not in live and not rec.get("orphan_reported"):
                rec["orphan_reported"] = True
                world.violate("C26.orphan-body", f"step {rec['step']} (input {rec['uid']}) is still executing although its control loop #{rec['runner']} has exited",
                              after_abort=True)
    world.stable_checks.append(stable)
    answered = set()

    async def sender(i):
        for _ in range(world.tape.rng_int(1, 4, f"s{i}.n")):
            d = world.tape.choice([0, 1, it - 1, it, it, it + 1, 2 * it], f"s{i}.delay")
            if d:
                await asyncio.sleep(d)
            row = handler_row(world)
            if not row or row[0] != "running":
                return
            live = bool(world.live_runners.get(world._run))
            if not live:
                world.probe("send-to-released-run")
            pend = [c for c in world.wait_calls if c["key"] not in answered]
            kind = world.tape.draw(4, f"s{i}.kind")
            if pend and kind <= 1:
                c = pend[0]
                answered.add(c["key"])
                ev = world.mk("Resp0", -1, "ext", key=c["key"])
            elif kind == 2:
                ev = world.mk("E1", -1, "ext", path=f"x{world._uid}")
            else:
                ev = world.mk("X0", -1, "ext")
            await send(world, inc, ev, f"sender{i}")
            if not live and world.tape.chance(50, 100, f"s{i}.burst"):
                # a second event right behind the one that triggers the reload
                b = world.tape.choice([0, 0, 1], f"s{i}.burst.d")
                if b:
                    await asyncio.sleep(b)
                await send(world, inc, world.mk("X0", -1, "ext"), f"sender{i}-burst")
    n_s = world.tape.rng_int(1, 3, "senders")
    tasks = [inc.spawn(sender(i)) for i in range(n_s)]
    await asyncio.gather(*tasks, return_exceptions=True)
    # answer what is still waiting, one at a time, after the system went quiet (run released by then)
    for _ in range(6):
        await world.loop.quiesce()
        pend = [c for c in world.wait_calls if c["key"] not in answered]
        row = handler_row(world)
        if not pend or not row or row[0] != "running":
            break
        answered.add(pend[0]["key"])
        if not world.live_runners.get(world._run):
            world.probe("send-to-released-run")
        await send(world, inc, world.mk("Resp0", -1, "ext", key=pend[0]["key"]), "late-response")
    await world.loop.quiesce()
    world.trace.log("quiescent", phase="end")
    return {}


def check(world, spec, outcome) -> None:
    recs = world.trace.recs
    it = world._it
    rwin = retry_windows(recs)
    dwin = delivery_windows(recs)
    sends: dict = {}
    returned = set()
    in_mailbox: set = set()
    processed = set()
    open_inv: dict = {}
    unacked: dict = {}
    ended_at = None
    live = 0
    n_rel = 0
    spurious_idle = False
    send_times = []
    aborted_pending = 0
    put_seq: dict = {}
    last_idle_pub = None
    for seq, t, kind, f in recs:
        if kind == "send":
            sends[f["uid"]] = (seq, t)
            if any(abs(t - st) < 1e-12 for st in send_times):
                world.probe("two-senders-same-instant")
            send_times.append(t)
        elif kind == "send-returned":
            returned.add(f["uid"])
        elif kind == "mailbox-put" and f.get("tick") == "add_event":
            in_mailbox.add(f["uid"])
            put_seq.setdefault(f["uid"], seq)
        elif kind == "tick":
            if f["tick"] == "add_event":
                processed.add(f["uid"])
            elif f["tick"] == "step_result":
                unacked.pop((f["step"], str(f["uid"])), None)
        elif kind == "enter":
            open_inv[f["inv"]] = f["step"]
            unacked[(f["step"], str(f["uid"]))] = seq
        elif kind == "exit":
            open_inv.pop(f["inv"], None)
            if f["exit"] == "cancelled":
                unacked.pop((f["step"], str(f["uid"])), None)
        elif kind == "publish":
            if f["ev"] == "WorkflowIdleEvent":
                last_idle_pub = seq
            if f["ev"] in ("StopEvent", "WorkflowFailedEvent", "WorkflowCancelledEvent", "WorkflowTimedOutEvent") and ended_at is None:
                ended_at = seq
            elif f["ev"] == "WorkflowIdleEvent" and any(u in in_mailbox and u not in processed for u in sends):
                spurious_idle = True
            elif f["ev"] == "WorkflowIdleEvent" and (any(a < seq < b for a, b, _, _ in rwin) or any(a < seq < b for a, b, _ in dwin)):
                spurious_idle = True
        elif kind == "abort" and f.get("live"):
            # the release decision: the control loop is cancelled from here on (it only unwinds)
            if live > 0:
                live -= 1
                aborted_pending += 1
            if ended_at is None:
                n_rel += 1
                world.probe("released")
                work = []
                if open_inv:
                    work.append("executing:" + ",".join(sorted(set(open_inv.values()))))
                if unacked:
                    work.append("unprocessed-step-result")
                if any(u in in_mailbox and u not in processed for u in sends):
                    work.append("unprocessed-sent-event")
                if any(a < seq < b for a, b, _, _ in rwin):
                    work.append("pending-delayed-retry")
                if any(abs(t - st) < 1e-12 for st in send_times):
                    world.probe("send-at-release-instant")
                if work:
                    world.probe("release-while-working")
                    # root cause attribute: the idle announcement this release rests on (the last one before it; a send in
                    # between would have cleared idle_since) was made while an external send was between its call and its
                    # arrival in the mailbox, i.e. inside IdleReleaseExternalRunAdapter.send_event's clear-then-deliver window
                    in_flight = last_idle_pub is not None and any(
                        sseq < last_idle_pub and (put_seq.get(u) is None or put_seq[u] > last_idle_pub) for u, (sseq, _) in sends.items())
                    if in_flight:
                        world.probe("idle-marked-while-send-in-flight")
                    world.violate("C26.released-with-work", f"run released at t={t} while it had work: {work}", seq,
                                  work=work[0].split(":")[0], after_spurious_idle=spurious_idle, send_in_flight_at_idle=in_flight)
        elif kind == "runner-start":
            live += 1
            if live >= 2:
                world.violate("C26.two-loops", f"{live} live control loops for run {f['run']} (runner #{f['runner']} started while another is live)", seq)
        elif kind == "runner-exit":
            if aborted_pending > 0:
                aborted_pending -= 1
            else:
                live -= 1
    for u, (sseq, st) in sends.items():
        if u in returned and u not in processed and (ended_at is None or sseq > ended_at and False):
            if ended_at is not None:
                continue
            rerr = sorted({f2["exc"] + ": " + f2["msg"] for _, _, k2, f2 in recs if k2 == "reload-error"})
            world.violate("C26.event-lost", f"event uid={u} sent at t={st} (send returned) was never processed by the run; releases: {n_rel}; reload errors: {rerr}", sseq,
                          reload_error=rerr[0] if rerr else None)
    world._nt = bool(world.probes.get("send-to-released-run") or world.probes.get("send-at-release-instant"))


def run(tape):
    return engine_common.simulate(tape, CFG, check, gen=gen, scenario=scenario, nontrivial=lambda w, s, o: w._nt, world_cls=ServerWorld)
