"""C26 — idle release and resume never lose an event or double-run a workflow (in-process stack; DBOS lifecycle lock on two replicas)."""
from __future__ import annotations

import asyncio

from worlds import events as EV
from worlds import engine_common
from worlds.idle import gen_hitl, handler_row, send
from worlds.obs import delivery_windows, retry_windows
from worlds.server import ServerWorld

ID = "C26"
LEVEL = "exploration"
QUICK_RUNS = 800
THOROUGH_SECONDS = 600
RULE_TEXT = ("In-process server stack (SQLite or memory store), idle_timeout in {2,4}. Human-in-the-loop programs with fan-out via "
             "ctx.send_event and return, delayed retries, waits; 1-3 external senders fire responses, accepted events and unhandled "
             "events at instants drawn around the release instant (just before, exactly at, while released, two at the same "
             "instant). Oracle: every send whose call returned is processed by the run by quiescence (unless the run ended first); "
             "at every release (control loop aborted without a terminal event) the run has no executing body, unprocessed step "
             "result, unprocessed sent event or pending delayed retry; the runner registry never shows two live control loops for "
             "one run; no step body keeps executing after its control loop exited. DBOS half (a quarter of the runs, on the emulated "
             "dbos package): TWO replicas (own DBOS instance, runtime, service, lifecycle-lock object) on one database; the lifecycle "
             "row is created by the harness; lifecycle calls take 0/1/4 ms round trips per run and (stall arm) one chosen call is held "
             "up 1/130/200 s on its request or response side, or - complete_release only - beyond the observation window (CRASH_TIMEOUT is 120 s); 1-3 senders through either replica around the "
             "release instant and around the crash timeout, then late answers and a final Fin. Oracle there: every event sent is "
             "processed (tick reduced, folded into a resume, or consumed by a wait) before the Fin-made end, the system becomes quiet "
             "within 3000 s of the last send; at every TickIdleRelease the run has no executing body, unprocessed result or message "
             "in its DBOS mailbox; ownership grants (try_begin_resume -> released) alternate with begun releases (at most one resumer "
             "per release cycle); never two live control loops. Crash arm (30% of the DBOS runs without a stall): the replica that hosts "
             "and releases the run dies at its j-th committed transaction counted from just before the release timer fires (or from the "
             "first idle announcement), everything in its memory is gone, it comes back 1/30/150 s later (DBOS recovers its pending "
             "workflow at launch) while senders go through the other replica. Not exercised: the Postgres lock class itself, a crash "
             "of the resuming replica. Non-trivial: >=1 send reached a released run or "
             "raced a release at the same instant or polled a 'releasing' row; distinct = abstract trace shape.")
COMPONENTS = {"real": ["IdleReleaseDecorator + KeyedLock reload lock, IdleReleaseExternalRunAdapter.send_event, PersistenceDecorator, server stack, engine",
                       "DBOS half: DBOSIdleReleaseDecorator (deferred release, send_event poll loop, _do_resume), SqliteRunLifecycleLock, DBOSRuntime adapters, TickPersistenceDecorator, ServerRuntimeDecorator, _WorkflowService, SqliteWorkflowStore (two replicas)"],
              "stub": ["llama_index_instrumentation", "dbos (in-process emulator on the same SQLite file, /verif/stubs/dbos)", "sqlalchemy, asyncpg (names only)"],
              "sim": ["loop, clocks, runner registry, senders, lifecycle latency/stall proxy"]}
ASSUMPTIONS = ["DBOS half runs on the emulated dbos package (contract in stubs/dbos/__init__.py) and on SqliteRunLifecycleLock behind a latency proxy standing in for a networked lock; PostgresRunLifecycleLock is not run",
               "the lifecycle row is created by the harness (the repository never calls RunLifecycleLock.create: known finding C36-dbos-never-released)",
               "a crash loses exactly what the dying process had not committed (SQLite seam); DBOS recovery is the emulator's (contract item 5)"]
EXPECTED_PROBES = ["store-latency-arm", "send-to-released-run", "send-at-release-instant", "two-senders-same-instant", "released", "release-while-working",
                   "lifecycle-latency-arm", "sender-polled-while-releasing", "sends-through-both-replicas", "resumed", "releaser-crashed", "crash-with-lifecycle-releasing"]
LEVEL_TEXT = "Seeded exploration of sender instants around release/reload; safety rules at every runner start/exit, liveness (event processed) at quiescence."
LEVEL_NOTE = ("Trusted: simulator loop/clocks, runner registry (subclass of the private _ControlLoopRunner, behaviour unchanged); for the DBOS "
              "half additionally the dbos emulator (stubs/dbos, contract self-test tools/dbos_selftest.py), the SQLite crash fence and the "
              "lifecycle latency proxy (its calls are the real SqliteRunLifecycleLock's).")

CFG = {"driver": "finish", "backends": ["sqlite", "memory"], "quiesce_gap": 500.0, "grid": [0, 1, 1, 2, 3], "p_wait": 60,
       "allow_send_event": True, "retry_delays": [0, 0, 1, 2], "log_mailbox": True}


def gen(tape, cfg):
    return gen_hitl(tape, cfg)


async def scenario(world, spec):
    it = float(world.tape.choice([2, 4], "idle_timeout"))
    world.cfg["idle_timeout"] = it
    # half of the runs: store I/O really suspends (networked database), so senders and the release timer interleave inside
    # their store round trips
    world.cfg["store_latency"] = bool(world.tape.draw(2, "store-latency?"))
    if world.cfg["store_latency"]:
        world.probe("store-latency-arm")
    world._it = it
    inc = world.new_incarnation()
    wf = inc.add_workflow("wf", spec)
    await inc.start()
    start = EV.Start0(uid=world.uid())
    hd = await inc.call(inc.service.start_workflow(wf, "h1", start_event=start))
    world._run = hd.run_id

    def stable():
        live = {getattr(r, "_sim_runner_no", None) for r in (world.live_runners.get(world._run) or [])}
        for inv, rec in world.open_bodies.items():
            if rec.get("runner") is not None and rec["runner"] not in live and not rec.get("orphan_reported"):
                rec["orphan_reported"] = True
                world.violate("C26.orphan-body", f"step {rec['step']} (input {rec['uid']}) is still executing although its control loop #{rec['runner']} has exited",
                              after_abort=True)
    world.stable_checks.append(stable)
    answered = set()

    async def sender(i):
        for _ in range(world.tape.rng_int(1, 4, f"s{i}.n")):
            d = world.tape.choice([0, 1, it - 1, it, it, it + 1, 2 * it], f"s{i}.delay")
            if d:
                await asyncio.sleep(d)
            row = handler_row(world)
            if not row or row[0] != "running":
                return
            live = bool(world.live_runners.get(world._run))
            if not live:
                world.probe("send-to-released-run")
            pend = [c for c in world.wait_calls if c["key"] not in answered]
            kind = world.tape.draw(4, f"s{i}.kind")
            if pend and kind <= 1:
                c = pend[0]
                answered.add(c["key"])
                ev = world.mk("Resp0", -1, "ext", key=c["key"])
            elif kind == 2:
                ev = world.mk("E1", -1, "ext", path=f"x{world._uid}")
            else:
                ev = world.mk("X0", -1, "ext")
            await send(world, inc, ev, f"sender{i}")
            if not live and world.tape.chance(50, 100, f"s{i}.burst"):
                # a second event right behind the one that triggers the reload
                b = world.tape.choice([0, 0, 1], f"s{i}.burst.d")
                if b:
                    await asyncio.sleep(b)
                await send(world, inc, world.mk("X0", -1, "ext"), f"sender{i}-burst")
    n_s = world.tape.rng_int(1, 3, "senders")
    tasks = [inc.spawn(sender(i)) for i in range(n_s)]
    await asyncio.gather(*tasks, return_exceptions=True)
    # answer what is still waiting, one at a time, after the system went quiet (run released by then)
    for _ in range(6):
        await world.loop.quiesce()
        pend = [c for c in world.wait_calls if c["key"] not in answered]
        row = handler_row(world)
        if not pend or not row or row[0] != "running":
            break
        answered.add(pend[0]["key"])
        if not world.live_runners.get(world._run):
            world.probe("send-to-released-run")
        await send(world, inc, world.mk("Resp0", -1, "ext", key=pend[0]["key"]), "late-response")
    await world.loop.quiesce()
    world.trace.log("quiescent", phase="end")
    return {}


def check(world, spec, outcome) -> None:
    recs = world.trace.recs
    it = world._it
    rwin = retry_windows(recs)
    dwin = delivery_windows(recs)
    sends: dict = {}
    returned = set()
    in_mailbox: set = set()
    processed = set()
    open_inv: dict = {}
    unacked: dict = {}
    ended_at = None
    live = 0
    n_rel = 0
    spurious_idle = False
    send_times = []
    aborted_pending = 0
    put_seq: dict = {}
    last_idle_pub = None
    last_idle_t = None
    for seq, t, kind, f in recs:
        if kind == "send":
            sends[f["uid"]] = (seq, t)
            if any(abs(t - st) < 1e-12 for st in send_times):
                world.probe("two-senders-same-instant")
            send_times.append(t)
        elif kind == "send-returned":
            returned.add(f["uid"])
        elif kind == "mailbox-put" and f.get("tick") == "add_event":
            in_mailbox.add(f["uid"])
            put_seq.setdefault(f["uid"], seq)
        elif kind == "tick":
            if f["tick"] == "add_event":
                processed.add(f["uid"])
            elif f["tick"] == "step_result":
                unacked.pop((f["step"], str(f["uid"])), None)
        elif kind == "enter":
            open_inv[f["inv"]] = f["step"]
            unacked[(f["step"], str(f["uid"]))] = seq
        elif kind == "exit":
            open_inv.pop(f["inv"], None)
            if f["exit"] == "cancelled":
                unacked.pop((f["step"], str(f["uid"])), None)
        elif kind == "publish":
            if f["ev"] == "WorkflowIdleEvent":
                last_idle_pub = seq
                last_idle_t = t
            if f["ev"] in ("StopEvent", "WorkflowFailedEvent", "WorkflowCancelledEvent", "WorkflowTimedOutEvent") and ended_at is None:
                ended_at = seq
            elif f["ev"] == "WorkflowIdleEvent" and any(u in in_mailbox and u not in processed for u in sends):
                spurious_idle = True
            elif f["ev"] == "WorkflowIdleEvent" and (any(a < seq < b for a, b, _, _ in rwin) or any(a < seq < b for a, b, _ in dwin)):
                spurious_idle = True
        elif kind == "abort" and f.get("live"):
            # the release decision: the control loop is cancelled from here on (it only unwinds)
            if live > 0:
                live -= 1
                aborted_pending += 1
            if ended_at is None:
                n_rel += 1
                world.probe("released")
                work = []
                if open_inv:
                    work.append("executing:" + ",".join(sorted(set(open_inv.values()))))
                if unacked:
                    work.append("unprocessed-step-result")
                if any(u in in_mailbox and u not in processed for u in sends):
                    work.append("unprocessed-sent-event")
                if any(a < seq < b for a, b, _, _ in rwin):
                    work.append("pending-delayed-retry")
                if any(abs(t - st) < 1e-12 for st in send_times):
                    world.probe("send-at-release-instant")
                if work:
                    world.probe("release-while-working")
                    # root cause attribute: the idle announcement this release rests on (the last one before it; a send in
                    # between would have cleared idle_since) was made while an external send was between its call and its
                    # arrival in the mailbox, i.e. inside IdleReleaseExternalRunAdapter.send_event's clear-then-deliver window
                    # (on a store whose calls suspend, the marker write itself takes a few round trips after the announcement: a send
                    # that starts inside them is in the same window, as in C36)
                    win = (16.0 / 1024) if world.cfg.get("store_latency") else 0.0
                    in_flight = last_idle_pub is not None and any(
                        (sseq < last_idle_pub and (put_seq.get(u) is None or put_seq[u] > last_idle_pub)) or
                        (win and last_idle_t is not None and 0 <= st_ - last_idle_t <= win) for u, (sseq, st_) in sends.items())
                    if in_flight:
                        world.probe("idle-marked-while-send-in-flight")
                    world.violate("C26.released-with-work", f"run released at t={t} while it had work: {work}", seq,
                                  work=work[0].split(":")[0], after_spurious_idle=spurious_idle, send_in_flight_at_idle=in_flight)
        elif kind == "runner-start":
            live += 1
            if live >= 2:
                world.violate("C26.two-loops", f"{live} live control loops for run {f['run']} (runner #{f['runner']} started while another is live)", seq)
        elif kind == "runner-exit":
            if aborted_pending > 0:
                aborted_pending -= 1
            else:
                live -= 1
    for u, (sseq, st) in sends.items():
        if u in returned and u not in processed and (ended_at is None or sseq > ended_at and False):
            if ended_at is not None:
                continue
            rerr = sorted({f2["exc"] + ": " + f2["msg"] for _, _, k2, f2 in recs if k2 == "reload-error"})
            world.violate("C26.event-lost", f"event uid={u} sent at t={st} (send returned) was never processed by the run; releases: {n_rel}; reload errors: {rerr}", sseq,
                          reload_error=rerr[0] if rerr else None)
    world._nt = bool(world.probes.get("send-to-released-run") or world.probes.get("send-at-release-instant"))


# ---------------------------------------------------------------------------------------------------------------------------
# DBOS half: DBOSIdleReleaseDecorator + RunLifecycleLock (SQLite) on TWO replicas (two emulated DBOS processes with their own
# executor ids, runtimes, services and lifecycle-lock objects) sharing one database, on the EMULATED dbos package (DESIGN 9.6).
# The lifecycle row is created by the harness right after the start (the repository has no caller of RunLifecycleLock.create:
# known finding C36-dbos-never-released); everything after that is the repository's code.

CFG_DBOS = {"driver": "finish", "quiesce_gap": 500.0, "grid": [0, 1, 1, 2], "p_wait": 100, "allow_send_event": False, "retry_delays": [0],
            "max_steps": 600_000}
SETTLE = 3000.0   # virtual seconds the system gets to become quiet once nothing more is sent (polling loops never quiesce by themselves)


class _SlowLifecycle:
    """the replica's RunLifecycleLock behind a network: every call takes time before it reaches the database and before its answer is
    back, and (stall arm) one chosen call is held up for longer than the crash timeout.  The calls themselves are the real ones."""

    def __init__(self, real, world, replica: str, lat: tuple[float, float], stall: dict | None) -> None:
        self._real, self._w, self._rep, self._lat, self._stall = real, world, replica, lat, stall
        self._n: dict[str, int] = {}

    async def _call(self, op: str, run_id: str, *a, **k):
        w = self._w
        n = self._n[op] = self._n.get(op, 0) + 1
        pre, post = self._lat
        st = self._stall
        if st and st["op"] == op and st["replica"] == self._rep and st["n"] == n:
            w.fault("lifecycle-call-stalled")
            w.trace.log("lc-stall", op=op, replica=self._rep, side=st["side"], secs=st["secs"])
            if st["side"] == "request":
                pre += st["secs"]
            else:
                post += st["secs"]
        w.trace.log("lc-call", op=op, replica=self._rep)
        if pre:
            await asyncio.sleep(pre)
        r = await getattr(self._real, op)(run_id, *a, **k)
        w.trace.log("lc", op=op, replica=self._rep, result=getattr(r, "value", r))
        if post:
            await asyncio.sleep(post)
        return r

    async def create(self, run_id):
        return await self._call("create", run_id)

    async def begin_release(self, run_id):
        return await self._call("begin_release", run_id)

    async def complete_release(self, run_id):
        return await self._call("complete_release", run_id)

    async def try_begin_resume(self, run_id, crash_timeout_seconds=None):
        return await self._call("try_begin_resume", run_id, crash_timeout_seconds=crash_timeout_seconds)


async def _settle(world, limit: float = SETTLE) -> bool:
    """wait for quiescence, but at most `limit` virtual seconds; False if the system was still busy (polling) then"""
    q = world.loop.quiesce()
    done, _ = await asyncio.wait([q], timeout=limit)
    return bool(done)


def _lc_state(world):
    import sqlite3
    conn = sqlite3.connect(world.tmp.db())
    try:
        lc = conn.execute("SELECT state FROM run_lifecycle").fetchall()
        h = conn.execute("SELECT status FROM handlers WHERE handler_id='h1'").fetchone()
    except sqlite3.Error:
        return None, None
    finally:
        conn.close()
    return (lc[0][0] if lc else None), (h[0] if h else None)


async def scenario_dbos(world, spec):
    tape = world.tape
    it = float(tape.choice([2, 4], "idle_timeout"))
    world.cfg["idle_timeout"] = it
    world._it = it
    lat_k = tape.choice([0, 1, 4, 4], "lc.latency")
    lat = (lat_k / 1024, lat_k / 1024)
    if lat_k:
        world.probe("lifecycle-latency-arm")
    stall = None
    if tape.chance(40, 100, "lc.stall?"):
        stall = {"op": tape.choice(["complete_release", "complete_release", "complete_release", "begin_release", "try_begin_resume"], "lc.stall.op"),
                 "replica": tape.choice(["A", "A", "A", "B"], "lc.stall.rep"), "n": tape.choice([1, 1, 2], "lc.stall.n"),
                 "side": tape.choice(["request", "request", "response"], "lc.stall.side"), "secs": float(tape.choice([1, 130, 200, 5000], "lc.stall.secs"))}
        if stall["secs"] > 1000 and not (stall["op"] == "complete_release" and stall["side"] == "request"):
            # a releaser that is as good as dead (longer than the observation window) is only meaningful once the old execution has
            # ended and nothing but the 'released' mark is missing: the case the crash timeout exists for
            stall["secs"] = 200.0
    crash = None
    if stall is None and tape.chance(30, 100, "crash?"):
        # the replica that hosts the run (and releases it) dies at its j-th committed transaction after the run first went idle and
        # comes back `down` seconds later (DBOS recovers its pending workflows at launch)
        crash = {"j": tape.rng_int(1, 8, "crash.j"), "down": float(tape.choice([1, 30, 150], "crash.down"))}
    reps = {}

    async def boot_replica(name, ex):
        inc = world.new_incarnation(ex, server_chain=True)
        inc.name = name
        reps[name] = inc
        wfs[name] = inc.add_workflow("wf", spec)
        await inc.start()
        real = await inc.call(inc.chain._get_lifecycle())
        inc.chain._lifecycle_lock_instance = _SlowLifecycle(real, world, name, lat, stall)
        return inc
    wfs: dict = {}
    for name, ex in (("A", "exec-1"), ("B", "exec-2")):
        await boot_replica(name, ex)
    a = reps["A"]
    hd = await a.call(a.service.start_workflow(wfs["A"], "h1", start_event=EV.Start0(uid=world.uid())))
    rid = world._run = hd.run_id
    await a.call(a.chain._lifecycle_lock_instance._real.create(rid))
    answered: set = set()
    down = {"A": False}
    if crash:
        from sim.sqlite_seam import SEAM
        world.crash_event = asyncio.Event()

        async def supervisor():
            t_idle = None
            for _ in range(400):                    # until the run has announced that it is idle (its release timer is armed then)
                t_idle = max([t for _, t, k, f in world.trace.recs if k == "publish" and f["ev"] == "WorkflowIdleEvent"], default=None)
                if t_idle is not None:
                    break
                await asyncio.sleep(0.125)
            if t_idle is not None and crash["j"] > 2:
                # count the commits from just before the release timer fires: the crash lands inside the release sequence
                await asyncio.sleep(max(0.0, t_idle + it - 1.0 / 2048 - world.clock.t))
            SEAM.crash_plan = {"table": None, "k": SEAM.total_commits + max(1, crash["j"] - 2), "inc": reps["A"].n}
            await world.crash_event.wait()
            down["A"] = True
            world.probe("releaser-crashed")
            lc_now, _ = _lc_state(world)
            world.trace.log("replica-crash", replica="A", lifecycle=lc_now)
            world.probe(f"crash-with-lifecycle-{lc_now}")
            await world.kill(reps["A"])
            world.open_bodies.clear()
            await asyncio.sleep(crash["down"])
            await boot_replica("A", "exec-1")
            down["A"] = False
            world.trace.log("replica-restarted", replica="A")
        sup = asyncio.ensure_future(supervisor())

    async def send_via(rep: str, ev, label: str) -> None:
        if rep == "A" and down["A"]:
            rep = "B"                   # the load balancer does not route to a dead replica
        inc = reps[rep]
        live = bool(world.live_runners.get(rid))
        if not live:
            world.probe("send-to-released-run")
        world.probe(f"send-via-{rep}")
        world.trace.log("send", uid=ev.uid, ev=type(ev).__name__, key=getattr(ev, "key", None), label=label, replica=rep, live=live, via_inc=inc.n)
        world.fault("external-send")
        try:
            await inc.call(inc.service.send_event("h1", ev))
            world.trace.log("send-returned", uid=ev.uid)
        except BaseException as e:  # noqa: BLE001
            world.trace.log("send-rejected", uid=ev.uid, exc=type(e).__name__, msg=str(e)[:100])
            if isinstance(e, asyncio.CancelledError):
                raise

    async def sender(i: int) -> None:
        for j in range(tape.rng_int(1, 3, f"s{i}.n")):
            # (it - one or two lifecycle round trips: the event then reaches the run while the release timer is inside begin_release)
            d = tape.choice([0, 1, it - 1, it, it, it - lat[0], it - 2 * lat[0], it + 1, 2 * it, it + 125], f"s{i}.delay")
            if d:
                await asyncio.sleep(d)
            _, hs = _lc_state(world)
            if hs != "running":
                return
            rep = tape.choice(["A", "B", "B"], f"s{i}.rep")
            pend = [c for c in world.wait_calls if c["key"] not in answered]
            if pend and tape.draw(3, f"s{i}.kind") <= 1:
                answered.add(pend[0]["key"])
                ev = world.mk("Resp0", -1, "ext", key=pend[0]["key"])
            else:
                ev = world.mk("X0", -1, "ext")
            await send_via(rep, ev, f"sender{i}")
    tasks = [asyncio.ensure_future(sender(i)) for i in range(tape.rng_int(1, 3, "senders"))]
    await asyncio.gather(*tasks, return_exceptions=True)
    stuck = None
    for _ in range(6):
        if not await _settle(world):
            stuck = "answers"
            break
        pend = [c for c in world.wait_calls if c["key"] not in answered]
        _, hs = _lc_state(world)
        if not pend or hs != "running":
            break
        answered.add(pend[0]["key"])
        await send_via(tape.choice(["A", "B"], "late.rep"), world.mk("Resp0", -1, "ext", key=pend[0]["key"]), "late-response")
    if crash:
        if not world.crash_event.is_set():
            from sim.sqlite_seam import SEAM
            SEAM.crash_plan = None          # the release sequence never got that far: no crash in this run
            sup.cancel()
        else:
            await asyncio.wait([sup], timeout=400)
    if stuck is None:
        if await _settle(world):
            world.trace.log("quiescent", phase="pre-fin")
            fin = EV.Fin(uid=world.uid())
            t = asyncio.ensure_future(send_via(tape.choice(["A", "B"], "fin.rep"), fin, "fin"))
            if not await _settle(world):
                stuck = "fin"
            if not t.done():
                t.cancel()
        else:
            stuck = "pre-fin"
    lc, hs = _lc_state(world)
    world.trace.log("quiescent", phase="end", stuck=stuck, lifecycle=lc, handler=hs, live=len(world.live_runners.get(rid) or []))
    return {"stuck": stuck, "lifecycle": lc, "handler": hs, "stall": stall, "lat": lat_k, "crash": crash if (crash and world.crash_event.is_set()) else None}


def check_dbos(world, spec, outcome) -> None:
    if not outcome:
        world._nt = False
        return
    recs = world.trace.recs
    sends: dict = {}
    returned: set = set()
    processed: set = set()
    open_inv: dict = {}
    unacked: dict = {}
    in_mailbox: set = set()
    send_ctx: dict = {}
    activity_seqs: list = []
    lcs: list = []
    sent_at: dict = {}
    wf_state, release_sent, resume_in_progress, release_call_seq = "live", False, False, None
    live = 0
    n_rel = 0
    grants_since_release = 0
    begun = False
    ended_at = None
    end_kind = None
    stalled = outcome.get("stall")
    stall_attr = f"{stalled['op']}/{stalled['side']}/{'dead' if stalled['secs'] > 1000 else ('long' if stalled['secs'] > 120 else 'short')}" if stalled and any(k == "lc-stall" for _, _, k, _ in recs) else None
    attrs = {"backend": "dbos", "lifecycle_stall": stall_attr, "lifecycle_latency": bool(outcome.get("lat"))}
    crash_lc = next((f["lifecycle"] for _, _, k, f in recs if k == "replica-crash"), None)
    if outcome.get("crash"):
        attrs["releaser_crashed_in"] = crash_lc or "none"
    live_by_inc: dict = {}
    recvd: dict = {}
    consumed_by_dead: set = set()
    inflight_dead: set = set()
    for seq, t, kind, f in recs:
        if kind == "lc":
            lcs.append((seq, f["op"], f["replica"], f["result"]))
        if kind == "send":
            sends[f["uid"]] = (seq, t, f)
        elif kind == "send-returned":
            returned.add(f["uid"])
        elif kind == "dbos-send" and f.get("uid") is not None:
            # the run's mailbox on this stack is the DBOS notifications table (the service's send returns before that: it only
            # starts a task, which may first have to wait out a release or resume the run)
            in_mailbox.add(f["uid"])
            activity_seqs.append(seq)
            sent_at[f["uid"]] = seq
            # root-cause attribute of a loss: what the destination workflow was when the message was inserted
            if resume_in_progress:
                send_ctx[f["uid"]] = "to-old-workflow-during-resume"
            elif wf_state == "live":
                send_ctx[f["uid"]] = "behind-idle-release" if release_sent else "to-live-workflow"
            else:
                send_ctx[f["uid"]] = "to-ended-workflow"
        elif kind == "dbos-send" and f.get("msg") == "TickIdleRelease":
            release_sent = True
        elif kind == "dbos-wf-start":
            wf_state, release_sent = "live", False
        elif kind == "dbos-wf-end":
            wf_state = "ended"
        elif kind == "dbos-wf-deleted":
            # the old execution's mailbox is purged with it: what was in it is lost (reported below), not queued work of the next run
            in_mailbox = {u for u in in_mailbox if u in processed}
        elif kind == "lc-call" and f["op"] == "begin_release":
            release_call_seq = seq
        elif kind == "reload-error":
            resume_in_progress = False
        elif kind == "tick":
            if f["tick"] == "add_event":
                processed.add(f["uid"])
                activity_seqs.append(seq)
            elif f["tick"] == "step_result":
                unacked.pop((f["step"], str(f["uid"])), None)
            elif f["tick"] == "idle_release" and ended_at is None:
                n_rel += 1
                world.probe("released")
                work = []
                if open_inv:
                    work.append("executing:" + ",".join(sorted(set(open_inv.values()))))
                if unacked:
                    work.append("unprocessed-step-result")
                queued = [u for u in sends if u in in_mailbox and u not in processed]
                if queued:
                    work.append("unprocessed-sent-event")
                if work:
                    world.probe("release-while-working")
                    # root cause attribute: an event reached the run (or its mailbox) after the release timer had entered
                    # begin_release: the timer can no longer be cancelled there and the lifecycle row knows nothing of activity
                    raced = release_call_seq is not None and any(q > release_call_seq for q in activity_seqs)
                    if raced:
                        world.probe("event-inside-begin-release-round-trip")
                    world.violate("C26.released-with-work", f"DBOS stack: run released at t={t} while it had work: {work}", seq, work=work[0].split(":")[0],
                                  activity_during_release_call=raced, **attrs)
        elif kind == "wait-result":
            processed.add(f["got"])
        elif kind == "enter":
            if not isinstance(f["uid"], list):
                processed.add(f["uid"])
            open_inv[f["inv"]] = f["step"]
            unacked[(f["step"], str(f["uid"]))] = seq
        elif kind == "exit":
            open_inv.pop(f["inv"], None)
            if f["exit"] == "cancelled":
                unacked.pop((f["step"], str(f["uid"])), None)
        elif kind == "publish":
            if f["ev"] in ("StopEvent", "WorkflowFailedEvent", "WorkflowCancelledEvent", "WorkflowTimedOutEvent") and ended_at is None:
                ended_at = seq
                end_kind = f["ev"]
        elif kind == "dbos-recv" and f.get("uid") is not None:
            recvd[f["uid"]] = f.get("inc")
        elif kind == "killed":
            # the loops of the dead process died with it (no runner-exit is logged for them)
            live -= live_by_inc.pop(f["inc"], 0)
            open_inv.clear()
            unacked.clear()
            # messages its recv had consumed (and recorded) without the tick having been reduced: whether recovery hands them to the
            # run again is C27's subject (known finding C27-result-unjournaled-recv-purged); here it is the root-cause attribute
            for u, n_ in recvd.items():
                if n_ == f["inc"] and u not in processed:
                    consumed_by_dead.add(u)
            in_mailbox -= consumed_by_dead
            # requests the dead process had accepted (the service answers before its send task has run) and not yet enqueued
            for u, (_, _, sf) in sends.items():
                if sf.get("via_inc") == f["inc"] and u not in sent_at and u not in processed:
                    inflight_dead.add(u)
        elif kind == "runner-start":
            live += 1
            live_by_inc[f.get("inc")] = live_by_inc.get(f.get("inc"), 0) + 1
            if live >= 2:
                world.violate("C26.two-loops", f"DBOS stack: {live} live control loops for run {f['run']} (runner #{f['runner']} started while another is live)", seq, **attrs)
        elif kind == "runner-exit":
            if live_by_inc.get(f.get("inc"), 0) > 0:
                live_by_inc[f.get("inc")] -= 1
                live -= 1
        elif kind == "dbos-resume":
            world.probe("resumed")
        elif kind == "dbos-resumed":
            resume_in_progress = False
            if f.get("uid") is not None:
                # the event that triggered the resume was reduced into the rebuilt state (and appended to the tick log) by _do_resume
                processed.add(f["uid"])
        elif kind == "lc" and f["op"] == "begin_release" and f["result"] is True:
            grants_since_release = 0
            begun = True
        elif kind == "lc" and f["op"] == "try_begin_resume" and f["result"] == "released":
            # an ownership grant: the caller now resumes the run.  One grant per release cycle (a crash-timeout takeover of a stale
            # 'releasing' row is a grant like any other)
            grants_since_release += 1
            resume_in_progress = True
            if not begun:
                world.violate("C26.double-owner", f"DBOS stack: a resumer was granted ownership of run {world._run} at t={t} although no release had begun", seq, how="grant-without-release", **attrs)
            elif grants_since_release >= 2:
                world.violate("C26.double-owner", f"DBOS stack: {grants_since_release} resumers were granted ownership of run {world._run} within one release cycle (second at t={t})", seq, how="two-grants", **attrs)
        elif kind == "lc" and f["op"] == "try_begin_resume" and f["result"] == "releasing":
            world.probe("sender-polled-while-releasing")
    rerr = sorted({f2["exc"] + ": " + f2["msg"] for _, _, k2, f2 in recs if k2 == "reload-error"})
    for u, (sseq, st, f) in sends.items():
        # the run only ends by the Fin the scenario sends last, or by failing: everything sent before a Fin-made end is owed
        if u in processed or (ended_at is not None and end_kind != "StopEvent" and sseq < ended_at):
            continue
        # root-cause attribute: the sender was told 'active' (try_begin_resume -> None) before a release began, and inserted its
        # message after that release had begun: nothing fences the verdict against the release (or the resume) that follows it
        d = sent_at.get(u)
        v = next((q for q, op, rep, res in lcs if q > sseq and op == "try_begin_resume" and rep == f["replica"] and res is None), None)
        stale = bool(d is not None and v is not None and v < d and any(v < q < d and op == "begin_release" and res is True for q, op, rep, res in lcs))
        if u in returned or outcome.get("stuck"):
            world.violate("C26.event-lost", f"DBOS stack: event uid={u} ({f['ev']}, via replica {f['replica']}) sent at t={st} was never processed by the run "
                          f"({'send returned' if u in returned else 'send never returned'}; releases: {n_rel}; reload errors: {rerr}; end state: {outcome})", sseq,
                          send_returned=u in returned, reload_error=rerr[0] if rerr else None, end_lifecycle=outcome.get("lifecycle"),
                          lost_how="consumed-by-recv-of-crashed-process" if u in consumed_by_dead else (
                              "accepted-by-crashed-replica-never-enqueued" if (u in inflight_dead and u not in sent_at) else send_ctx.get(u, "never-reached-the-mailbox")),
                          stale_active_verdict=stale, **attrs)
    if outcome.get("stuck") and not world.violations:
        world.violate("C26.event-lost", f"DBOS stack: the system never became quiet within {SETTLE} s of the last send (phase {outcome['stuck']}); end state: {outcome}",
                      how="never-quiet", end_lifecycle=outcome.get("lifecycle"), **attrs)
    if len({f["replica"] for _, _, f in sends.values()}) > 1:
        world.probe("sends-through-both-replicas")
    world._nt = bool(world.probes.get("send-to-released-run") or world.probes.get("sender-polled-while-releasing"))


def _run_dbos(tape):
    from worlds.dbos import DbosWorld
    from props.c36 import gen as gen36
    return engine_common.simulate(tape, CFG_DBOS, check_dbos, gen=gen36, scenario=scenario_dbos, nontrivial=lambda w, s, o: w._nt, world_cls=DbosWorld)


def run(tape):
    if tape.draw(4, "c26.stack") == 0:
        return _run_dbos(tape)
    return engine_common.simulate(tape, CFG, check, gen=gen, scenario=scenario, nontrivial=lambda w, s, o: w._nt, world_cls=ServerWorld)
