"""C27 — DBOS recovery replays a run to the same execution (on the EMULATED dbos package)."""
from __future__ import annotations

import asyncio
import json

from sim.loop import SimCap, SimDeadlock
from sim.sqlite_seam import SEAM
from sim.tape import Tape
from worlds import events as EV

ID = "C27"
LEVEL = "exploration"
QUICK_RUNS = 60
THOROUGH_SECONDS = 900
CHUNK = 1
MIN_BUDGET = 10
RULE_TEXT = ("Generated deterministic workflows (fan-out, 1-3 workers per step, zero-delay retries, path-keyed idempotent state "
             "writes) run on the repository's DBOSRuntime (InternalDBOSAdapter with the journal-directed wait_for_next_task, "
             "TaskJournal + SqliteJournalCrud on the real SQLite file, SqliteStateStore) over an EMULATED dbos package. A "
             "reference run is recorded; then the process is stopped after the k-th committed transaction (any table: DBOS "
             "operation outputs, notifications, journal, state), k sampled (quick) / every k (thorough), a new process with the "
             "same executor id is launched and DBOS recovery re-invokes the control loop. Oracle: the recovered loop is handed "
             "task completions in the journaled order for the journaled prefix (order), the ticks it processes and the events it "
             "publishes during that prefix equal the recorded ones (ticks / events), no step body whose output was recorded runs "
             "again (rerun-body), and result and state equal the uninterrupted run (a DBOSUnexpectedStepError during recovery is a cause attribute). "
             "Non-trivial: the stop happened with >=1 journal entry and >=1 step in flight; distinct = (stop-point kind, trace shape).")
COMPONENTS = {"real": ["llama_agents.dbos.runtime (DBOSRuntime, InternalDBOSAdapter, ExternalDBOSAdapter)", "journal.task_journal, journal.crud (SqliteJournalCrud)",
                       "SqliteStateStore, SQLite migrations of server and dbos packages", "workflows.* engine"],
              "stub": ["dbos: EMULATED (stubs/dbos, contract in DESIGN W-DBOS items 1-6) - not the real library", "sqlalchemy, asyncpg (name only)", "llama_index_instrumentation"],
              "sim": ["loop, clocks, SQLite seam (crash fence, commit counting), incarnations"]}
ASSUMPTIONS = ["DBOS semantics as written in the emulator's contract (function ids in preamble order, recorded outputs returned without running the "
               "body, recv consumes+records atomically, recovery re-invokes PENDING workflows with recorded inputs)",
               "a process stop loses exactly the uncommitted transactions"]
EXPECTED_PROBES = ["stop-with-step-in-flight", "stop-with-journal-entries", "recovered", "replayed-step-output", "stop-after-last-commit"]
LEVEL_TEXT = ("Seeded exploration of programs, schedules and process-stop points (quick: about 9 single stops and 3 double stops per program, "
              "the second one inside or shortly after the recovery; thorough: a stop after every committed transaction of the run, up to 40, plus 12 double stops); differential against "
              "the uninterrupted run and against the prefix recorded by the stopped process. Runs on an EMULATED dbos package; programs have "
              "no scheduled wake-ups (retry delays are zero), see DESIGN 9.6.")
LEVEL_NOTE = "Trusted: simulator loop, crash fence, and the dbos EMULATOR (checked by tools/selftest.py dbos). A violation here is a statement about the repository's code running on that contract."
EVIDENCE_EXTRA = {"enumerated_dimension": "process stop after the k-th committed transaction"}

CFG = {"driver": "finish", "grid": [0, 1, 1, 2], "quiesce_gap": 500.0, "max_steps": 400_000, "log_pull_done": True, "executor_delays": [0]}
_LAST: dict = {}


def gen(tape, cfg):
    from props import c12
    spec = c12.gen(tape, dict(cfg, allow_twins=False))
    # Scope: programs WITHOUT scheduled wake-ups (zero-delay retries).  With positive retry delays the recovered loop's order is not
    # journal-directed at all (a wait_for_next_task that ended on its timeout leaves no journal entry, so the recovering loop waits for
    # the next journaled task instead and processes it ahead of the scheduled tick), and what happens next depends on when a replayed
    # DBOS step hands back its recorded output relative to the other tasks' function-id acquisition - a detail of the real dbos library
    # this emulator cannot vouch for.  The timers arm is therefore kept out of the claim (DESIGN 9.6); VERIF_C27_TIMERS=1 enables it for study.
    import os
    keep = bool(os.environ.get("VERIF_C27_TIMERS")) and tape.chance(40, 100, "c27.timers")
    for s in spec["steps"]:
        if s.get("retry") and not keep:
            s["retry"] = dict(s["retry"], wait=("none",))
    spec["timers"] = keep and any(s.get("retry") and s["retry"].get("wait", ("none",))[0] != "none" for s in spec["steps"])
    spec["steps"] = [s for s in spec["steps"] if s["role"] != "catch"]
    return spec


def _sim(values, crash_k, explore_tape=None):
    from worlds.dbos import DbosWorld
    tape = explore_tape if explore_tape is not None else Tape(replay=list(values))
    world = DbosWorld(tape, dict(CFG))
    harness = None
    out = None
    try:
        spec = gen(tape, world.cfg)
        world.spec_timers = bool(spec.get("timers"))
        try:
            out = world.loop.run_sim(_scenario(world, spec, crash_k))
        except SimCap as e:
            harness = f"cap: {e}"
        except SimDeadlock as e:
            harness = f"deadlock: {e}"
        recs = list(world.trace.recs)
        res = {"timers": getattr(world, "spec_timers", False), "violations": [], "harness": harness, "nontrivial": False, "shape": world.trace.shape(), "faults": dict(world.faults),
               "probes": dict(world.probes), "sim_time": world.clock.t, "steps": world.loop.steps, "digest": world.trace.digest(),
               "states": [], "evals": 1, "trace_excerpt": world.trace.excerpt(400)}
        return res, out, recs
    finally:
        world.close()


async def _scenario(world, spec, crash_ks):
    """crash_ks: None (reference) or a list of stop points; the i-th is counted in committed transactions from the start of
    the i-th incarnation's life (launch included), so a second stop can land inside the recovery itself"""
    crash_ks = list(crash_ks or [])
    inc = world.new_incarnation()
    wf = inc.add_workflow("wf", spec)
    await inc.launch()
    base_commits = SEAM.total_commits
    world.crash_event = asyncio.Event()
    if crash_ks:
        SEAM.crash_plan = {"table": None, "k": SEAM.total_commits + crash_ks[0], "inc": 1}
    hold = {"start_uid": world.uid()}

    async def start():
        hold["h"] = wf.run(start_event=EV.Start0(uid=hold["start_uid"]), run_id="run1")
    inc.spawn(start())
    ce = asyncio.ensure_future(world.crash_event.wait())
    q = world.loop.quiesce()
    await asyncio.wait([q, ce], return_when=asyncio.FIRST_COMPLETED)
    if not world.crash_event.is_set() and "h" in hold and not hold["h"].is_done():
        world.trace.log("quiescent", phase="pre-fin")

        async def go():
            hold["h"].ctx.send_event(EV.Fin(uid=world.uid()))
        inc.spawn(go())
        q = world.loop.quiesce()
        await asyncio.wait([q, ce], return_when=asyncio.FIRST_COMPLETED)
    out = {"crashed": False, "commits": SEAM.total_commits - base_commits, "stops": []}
    n_inc = 1
    while world.crash_event.is_set():
        out["crashed"] = True
        out["stops"].append({"inc": n_inc, "open": sorted(r["step"] for r in world.open_bodies.values()), "journal": _journal(world),
                             "ops": _ops(world), "recv_msgs": _recv_msgs(world), "started": _status(world) is not None})
        await world.kill(inc)
        world.open_bodies.clear()
        world.crash_event = asyncio.Event()
        ce = asyncio.ensure_future(world.crash_event.wait())
        n_inc += 1
        inc = world.new_incarnation()
        inc.add_workflow("wf", spec)
        if len(crash_ks) >= n_inc:
            SEAM.crash_plan = {"table": None, "k": SEAM.total_commits + crash_ks[n_inc - 1], "inc": n_inc}
        launch = inc.spawn(inc.outer.launch() if hasattr(inc.outer, "launch") else inc.runtime.launch())
        await asyncio.wait([launch, ce], return_when=asyncio.FIRST_COMPLETED)
        if world.crash_event.is_set():
            continue
        q = world.loop.quiesce()
        await asyncio.wait([q, ce], return_when=asyncio.FIRST_COMPLETED)
        if world.crash_event.is_set():
            continue
        world.trace.log("quiescent", phase="after-recovery")
        st = _status(world)
        if st is None:
            # the stop came before the run was durably started: nothing to recover, the caller starts it again
            wf2 = inc.workflows["wf"]

            async def start2(wf2=wf2):
                hold["h"] = wf2.run(start_event=EV.Start0(uid=hold["start_uid"]), run_id="run1")
            inc.spawn(start2())
            q = world.loop.quiesce()
            await asyncio.wait([q, ce], return_when=asyncio.FIRST_COMPLETED)
            if world.crash_event.is_set():
                continue
            st = _status(world)
        if st == "PENDING" and not _fin_known(world):
            # the finishing event is durable once its notification row is committed; send it (again) only if it is not there
            async def go2(inc=inc):
                from workflows.runtime.types.ticks import TickAddEvent
                ad = inc.runtime.get_external_adapter("run1")
                await ad.send_event(TickAddEvent(event=EV.Fin(uid=world.uid())))
            inc.spawn(go2())
            q = world.loop.quiesce()
            await asyncio.wait([q, ce], return_when=asyncio.FIRST_COMPLETED)
    ce.cancel()
    out["last_inc"] = n_inc
    out["status"] = _status(world)
    out["result"] = _result(world)
    out["state"] = _state(world)
    out["journal"] = _journal(world)
    world.trace.log("quiescent", phase="end")
    return out


def _q(world, sql, args=()):
    import sqlite3
    conn = sqlite3.connect(world.tmp.db())
    try:
        return conn.execute(sql, args).fetchall()
    except sqlite3.Error:
        return []
    finally:
        conn.close()


def _journal(world):
    return [r[0] for r in _q(world, "SELECT task_key FROM workflow_journal WHERE run_id='run1' ORDER BY seq_num")]


def _ops(world):
    return [(r[0], r[1]) for r in _q(world, "SELECT function_id, function_name FROM operation_outputs WHERE workflow_uuid='run1' ORDER BY function_id")]


def _recv_msgs(world) -> list:
    """recorded recv results that carry a message (i.e. notifications consumed by the run so far), in function-id order:
    the lineage path of the event each one carried (None when it is not one of the world's events)"""
    import pickle
    out = []
    for (o,) in _q(world, "SELECT output FROM operation_outputs WHERE workflow_uuid='run1' AND function_name='DBOS.recv' ORDER BY function_id"):
        try:
            m = pickle.loads(o) if o is not None else None
            if m is not None:
                out.append(getattr(getattr(m, "event", None), "path", None))
        except Exception:  # noqa: BLE001
            pass
    return out


def _status(world):
    r = _q(world, "SELECT status FROM workflow_status WHERE workflow_uuid='run1'")
    return r[0][0] if r else None


def _result(world):
    import pickle
    r = _q(world, "SELECT status, output, error FROM workflow_status WHERE workflow_uuid='run1'")
    if not r:
        return None
    st, o, e = r[0]
    if st == "SUCCESS":
        v = pickle.loads(o)
        return ("result", tuple(getattr(v, "result", None) or ()))
    if st == "ERROR":
        return ("error", type(pickle.loads(e)).__name__)
    return ("pending",)


def _state(world):
    r = _q(world, "SELECT state_json FROM workflow_state WHERE run_id='run1'")
    if not r:
        return None
    def keys(x):
        # the serialized DictState nests JSON-encoded values; collect the path keys (d.<step>_<path>) wherever they sit
        out = set()
        if isinstance(x, dict):
            for k, v in x.items():
                if isinstance(k, str) and (k.startswith("s0_") or k.startswith("w0_") or k.startswith("w1_") or k.startswith("h_")):
                    out.add(k)
                out |= keys(v)
        elif isinstance(x, list):
            for v in x:
                out |= keys(v)
        elif isinstance(x, str) and x[:1] in "{[":
            try:
                out |= keys(json.loads(x))
            except Exception:  # noqa: BLE001
                pass
        return out
    try:
        return json.dumps(sorted(keys(json.loads(r[0][0]))))
    except Exception:  # noqa: BLE001
        return r[0][0]


def _is_task_key(x: str) -> bool:
    name, _, num = x.rpartition(":")
    return bool(name) and num.isdigit()


def _only_purged(ref, out, purged_paths) -> bool:
    """root-cause attribute of a differing result: the recovered run did a subset of the reference's work, and every piece of
    work that is missing descends (lineage path) from a message that a recv had consumed and recorded while the completion of
    that pull task had not been journaled at the stop - i.e. exactly what the replay->fresh orphan purge deletes"""
    try:
        if not purged_paths or ref["result"][0] != "result" or out["result"] is None or out["result"][0] != "result":
            return False
        r_ref, r_out = set(ref["result"][1]), set(out["result"][1])
        s_ref, s_out = set(json.loads(ref["state"] or "[]")), set(json.loads(out["state"] or "[]"))
        if not (r_out <= r_ref and s_out <= s_ref):
            return False
        missing = (r_ref - r_out) | (s_ref - s_out)

        def from_purged(key):
            path = key.split("_", 1)[1] if "_" in key else ""
            return any(path == p or path.startswith(p + "_") for p in purged_paths)
        return bool(missing) and all(from_purged(k) for k in missing)
    except Exception:  # noqa: BLE001
        return False


def _fin_known(world):
    import pickle
    for (m,) in _q(world, "SELECT message FROM notifications WHERE destination_uuid='run1'"):
        try:
            if type(getattr(pickle.loads(m), "event", None)).__name__ == "Fin":
                return True
        except Exception:  # noqa: BLE001
            pass
    for (o,) in _q(world, "SELECT output FROM operation_outputs WHERE workflow_uuid='run1' AND function_name='DBOS.recv'"):
        try:
            if o is not None and type(getattr(pickle.loads(o), "event", None)).__name__ == "Fin":
                return True
        except Exception:  # noqa: BLE001
            pass
    return False


def _prefix(recs, inc, m):
    """(task-done keys, tick descriptors, published events) of incarnation `inc` up to and including the processing of its m-th
    task completion (= everything before the (m+1)-th task-done record)"""
    done, ticks, pubs = [], [], []
    crash_seq = next((q for q, _, k, f in recs if k == "crash" and f.get("inc") == inc), None)
    for seq, t, kind, f in recs:
        if f.get("inc") != inc:
            continue
        if crash_seq is not None and seq > crash_seq:
            break       # what a dead process still did after its stop instant never happened
        if kind == "task-done":
            if len(done) == m:
                break
            done.append(f["key"])
        elif kind == "tick":
            ticks.append(json.dumps({k: v for k, v in f.items() if k not in ("inc", "run")}, sort_keys=True, default=str))
        elif kind == "publish":
            pubs.append(json.dumps({k: v for k, v in f.items() if k not in ("inc", "run")}, sort_keys=True, default=str))
    return done, ticks, pubs


def run(tape, thorough=False):
    import os
    thorough = thorough or os.environ.get("VERIF_TIER") == "thorough"
    res0, ref, recs0 = _sim(None, None, explore_tape=tape)
    values = list(tape.values)
    agg = res0
    agg["nontrivial_shapes"] = set()
    if res0["harness"] or not ref or ref.get("status") not in ("SUCCESS", "ERROR"):
        if not res0["harness"] and ref and ref.get("status") not in ("SUCCESS", "ERROR"):
            agg["violations"] = agg["violations"] + [{"rule": "C27.reference", "cause": {"status": ref.get("status")}, "seq": 0,
                                                     "msg": f"the uninterrupted run on the DBOS runtime did not complete: {ref.get('status')} {ref.get('result')}"}]
        agg["nontrivial_shapes"] = []
        return agg
    n = ref["commits"]
    timers = bool(res0.get("timers"))
    if timers:
        agg["probes"]["program-with-retry-delay-timers"] = agg["probes"].get("program-with-retry-delay-timers", 0) + 1
    if thorough:
        # every committed transaction as a single stop point (capped at 40 evenly spread ones for very long runs), plus a spread of
        # double stops; keeps one program's enumeration to ~10 s so that the time box is honoured
        ks_all = list(range(1, n + 1))
        if len(ks_all) > 40:
            ks_all = sorted(set(ks_all[:: max(1, len(ks_all) // 40)] + [1, 2, n - 1, n]))
        plans = [[k] for k in ks_all]
        if not timers:
            firsts = list(range(2, n + 1, max(3, n // 4)))[:4]
            plans += [[k, k2] for k in firsts for k2 in (1, 3, 7)]
    elif timers:
        step = max(1, n // 9)
        ks = sorted(set([1, 2, n - 1, n] + list(range(step, n, step))))[:12]
        plans = [[k] for k in ks if 1 <= k <= n]
    else:
        step = max(1, n // 6)
        ks = sorted(set([1, 2, n - 1, n] + list(range(step, n, step))))[:9]
        ks = [k for k in ks if 1 <= k <= n]
        plans = [[k] for k in ks]
        # a second stop inside (or shortly after) the recovery of the first: what the orphan purge exists for
        mid = [k for k in ks if 2 < k < n] or ks
        plans += [[mid[(i * 2) % len(mid)], k2] for i, k2 in enumerate((1 + n % 3, 3 + n % 4, 8 + n % 5))]
    for plan in plans:
        res, out, recs = _sim(values, plan)
        agg["evals"] += 1
        agg["steps"] += res.get("steps", 0)
        agg["sim_time"] += res.get("sim_time", 0.0)
        for kk in ("faults", "probes"):
            for a_, b_ in res.get(kk, {}).items():
                agg[kk][a_] = agg[kk].get(a_, 0) + b_
        agg["digest"] = (agg.get("digest") or "") + ":" + (res.get("digest") or "")
        if res["harness"]:
            agg["harness"] = agg["harness"] or res["harness"]
            continue
        if not out or not out.get("crashed"):
            continue
        vio, nontrivial = _judge(plan, n, ref, out, recs, agg["probes"])
        for rule, msg, c in vio:
            agg["violations"] = agg["violations"] + [{"rule": rule, "cause": c, "seq": 0, "msg": msg}]
        if vio:
            agg["trace_excerpt"] = res.get("trace_excerpt")
        if nontrivial:
            agg["nontrivial_shapes"].add(f"{res.get('shape')}:{plan}")
            agg["nontrivial"] = True
            if not agg.get("sample"):
                st0 = out["stops"][0]
                agg["sample"] = {"program": "C12 generator (no delays, no handlers)", "stop_after_commits": plan, "journal_at_first_stop": st0["journal"],
                                 "open_bodies_at_first_stop": st0["open"], "reference": ref["result"], "after_recovery": out["result"]}
    agg["nontrivial_shapes"] = sorted(agg["nontrivial_shapes"])
    return agg


def _judge(plan, n, ref, out, recs, probes):
    def P(name):
        probes[name] = probes.get(name, 0) + 1
    P("recovered")
    stops = out["stops"]
    if len(stops) > 1:
        P("second-stop-during-or-after-recovery")
    if plan[0] == n:
        P("stop-after-last-commit")
    vio = []
    nontrivial = False
    where = f"stops after commits {plan}" if len(plan) > 1 else f"stop after commit #{plan[0]}"
    all_purged: list = []
    any_unjournaled = False
    for st in stops:
        i = st["inc"]
        # journal entries that name a task ("<step>:<worker>", "__pull__:<n>"); anything else a version of the runtime may journal
        # (markers without a task) is not a completion handed to the loop
        jtasks = [x for x in st["journal"] if _is_task_key(x)]
        m = len(jtasks)
        if st["open"]:
            P("stop-with-step-in-flight")
        if m:
            P("stop-with-journal-entries")
        if m and st["open"]:
            nontrivial = True
        pulls_j = sum(1 for x in st["journal"] if x.startswith("__pull__"))
        # root cause attribute: a message that recv had consumed and recorded (one transaction) while the completion of that pull
        # task had not reached the journal yet
        recvd = st["recv_msgs"]
        cause = {"unjournaled_recv_at_stop": len(recvd) > pulls_j}
        any_unjournaled = any_unjournaled or cause["unjournaled_recv_at_stop"]
        all_purged += [p for p in recvd[pulls_j:] if p]
        d1, t1, p1 = _prefix(recs, i, m)
        d2, t2, p2 = _prefix(recs, i + 1, m)
        # a stopped process may have died in the middle of processing its last completions (and the recovering one may have been
        # stopped before it finished the replay): both records are prefixes of one history
        ct, cp = min(len(t1), len(t2)), min(len(p1), len(p2))
        if m and len(d2) >= m and d2[:m] != jtasks[:m]:
            vio.append(("C27.order", f"{where}: journal {st['journal']} at the stop of process {i}, but the recovering loop was handed completions {d2}", cause))
        elif m:
            if t2[:ct] != t1[:ct]:
                j = next(j for j in range(ct) if t1[j] != t2[j])
                vio.append(("C27.ticks", f"{where}: during the replay of the {m} completions journaled by process {i} the recovering loop processed different ticks at #{j}: "
                            f"recorded {t1[j:j + 2]} vs replayed {t2[j:j + 2]} ({len(t1)}/{len(t2)} ticks)", cause))
            if p2[:cp] != p1[:cp]:
                j = next(j for j in range(cp) if p1[j] != p2[j])
                vio.append(("C27.events", f"{where}: published events differ at #{j}: recorded {p1[j:j + 2]} vs replayed {p2[j:j + 2]}", cause))
        # bodies: every completion of step X that process i saw was journaled => none of those invocations may execute again
        crash_seq = next((q for q, _, k_, f in recs if k_ == "crash" and f.get("inc") == i), None)
        exits: dict = {}
        for seq, _, kind, f in recs:
            if kind == "exit" and f.get("inc") == i and (crash_seq is None or seq < crash_seq) and f["exit"] != "cancelled":
                exits.setdefault(f["step"], []).append((f["step"], str(f["uid"]), f.get("inv")))
        # the journal is cumulative over processes; count this process's own journaled completions per step
        prev_m = len(stops[stops.index(st) - 1]["journal"]) if stops.index(st) else 0
        if i == 1:
            jc: dict = {}
            for key in st["journal"][prev_m:]:
                if _is_task_key(key) and not key.startswith("__"):
                    jc[key.split(":")[0]] = jc.get(key.split(":")[0], 0) + 1
            ent_by_uid = {(f["step"], str(f["uid"]), f["retry"]) for _, _, kind, f in recs if kind == "enter" and f.get("inc") == 1 and
                          any(e[2] == f.get("inv") for e in exits.get(f["step"], []))}
            for _, _, kind, f in recs:
                if kind == "enter" and f.get("inc", 0) > 1 and (f["step"], str(f["uid"]), f["retry"]) in ent_by_uid \
                        and jc.get(f["step"], 0) >= len(exits.get(f["step"], [])):
                    vio.append(("C27.rerun-body", f"{where}: step {f['step']} executed again in process {f['inc']} for input uid={f['uid']} attempt {f['retry']} although "
                                f"every completion of that step seen by process 1 ({len(exits[f['step']])}) was journaled and its output recorded", cause))
                    break
    if any(kind == "dbos-step-replayed" and f.get("inc", 0) > 1 and str(f.get("name", "")).startswith("wf.") for _, _, kind, f in recs):
        P("replayed-step-output")
    cause = {"unjournaled_recv_at_stop": any_unjournaled}
    # a function-id mismatch (DBOSUnexpectedStepError) is how a diverging replay shows up inside DBOS; the statement speaks about
    # order, ticks, events and result, so it is a cause attribute of those rules (and a probe), not a rule of its own
    unexpected = [f for _, _, kind, f in recs if kind == "dbos-unexpected-step"]
    if unexpected:
        P("unexpected-step-error-during-recovery")
    cause = dict(cause, unexpected_step_error=bool(unexpected))
    if out["status"] == "PENDING":
        vio.append(("C27.stuck", f"{where}: after recovery and the finishing event the run is still PENDING (journal {out['journal']})", cause))
    elif out["result"] != ref["result"] or out["state"] != ref["state"]:
        vio.append(("C27.result", f"{where}: recovered run ended with {out['result']} / state {out['state']}; uninterrupted run {ref['result']} / {ref['state']}"
                    f" (messages consumed by a recv whose completion was not journaled at a stop: {all_purged})",
                    dict(cause, missing_only_from_purged_messages=_only_purged(ref, out, all_purged))))
    return vio, nontrivial
