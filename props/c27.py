"""C27 — DBOS recovery replays a run to the same execution (on the EMULATED dbos package)."""
from __future__ import annotations

import asyncio
import json

from sim.loop import SimCap, SimDeadlock
from sim.sqlite_seam import SEAM
from sim.tape import Tape
from worlds import events as EV

ID = "C27"
LEVEL = "exploration"
QUICK_RUNS = 60
THOROUGH_SECONDS = 900
CHUNK = 4
MIN_BUDGET = 10
RULE_TEXT = ("Generated deterministic workflows (fan-out, 1-3 workers per step, zero-delay retries, path-keyed idempotent state "
             "writes) run on the repository's DBOSRuntime (InternalDBOSAdapter with the journal-directed wait_for_next_task, "
             "TaskJournal + SqliteJournalCrud on the real SQLite file, SqliteStateStore) over an EMULATED dbos package. A "
             "reference run is recorded; then the process is stopped after the k-th committed transaction (any table: DBOS "
             "operation outputs, notifications, journal, state), k sampled (quick) / every k (thorough), a new process with the "
             "same executor id is launched and DBOS recovery re-invokes the control loop. Oracle: the recovered loop is handed "
             "task completions in the journaled order for the journaled prefix (order), the ticks it processes and the events it "
             "publishes during that prefix equal the recorded ones (ticks / events), no step body whose output was recorded runs "
             "again (rerun-body), no DBOSUnexpectedStepError (determinism), and result and state equal the uninterrupted run. "
             "Non-trivial: the stop happened with >=1 journal entry and >=1 step in flight; distinct = (stop-point kind, trace shape).")
COMPONENTS = {"real": ["llama_agents.dbos.runtime (DBOSRuntime, InternalDBOSAdapter, ExternalDBOSAdapter)", "journal.task_journal, journal.crud (SqliteJournalCrud)",
                       "SqliteStateStore, SQLite migrations of server and dbos packages", "workflows.* engine"],
              "stub": ["dbos: EMULATED (stubs/dbos, contract in DESIGN W-DBOS items 1-6) - not the real library", "sqlalchemy, asyncpg (name only)", "llama_index_instrumentation"],
              "sim": ["loop, clocks, SQLite seam (crash fence, commit counting), incarnations"]}
ASSUMPTIONS = ["DBOS semantics as written in the emulator's contract (function ids in preamble order, recorded outputs returned without running the "
               "body, recv consumes+records atomically, recovery re-invokes PENDING workflows with recorded inputs)",
               "a process stop loses exactly the uncommitted transactions"]
EXPECTED_PROBES = ["stop-with-step-in-flight", "stop-with-journal-entries", "recovered", "replayed-step-output", "stop-after-last-commit"]
LEVEL_TEXT = ("Fault enumeration over stop points (every committed transaction in the thorough tier) on top of seeded sampling of programs "
              "and schedules; differential against the uninterrupted run and against the recorded prefix.")
LEVEL_NOTE = "Trusted: simulator loop, crash fence, and the dbos EMULATOR (checked by tools/selftest.py dbos). A violation here is a statement about the repository's code running on that contract."
EVIDENCE_EXTRA = {"enumerated_dimension": "process stop after the k-th committed transaction"}

CFG = {"driver": "finish", "grid": [0, 1, 1, 2], "quiesce_gap": 500.0, "max_steps": 400_000, "log_pull_done": True, "executor_delays": [0]}
_LAST: dict = {}


def gen(tape, cfg):
    from props import c12
    spec = c12.gen(tape, dict(cfg, allow_twins=False))
    for s in spec["steps"]:
        if s.get("retry"):
            s["retry"] = dict(s["retry"], wait=("none",))
    spec["steps"] = [s for s in spec["steps"] if s["role"] != "catch"]
    return spec


def _sim(values, crash_k, explore_tape=None):
    from worlds.dbos import DbosWorld
    tape = explore_tape if explore_tape is not None else Tape(replay=list(values))
    world = DbosWorld(tape, dict(CFG))
    harness = None
    out = None
    try:
        spec = gen(tape, world.cfg)
        try:
            out = world.loop.run_sim(_scenario(world, spec, crash_k))
        except SimCap as e:
            harness = f"cap: {e}"
        except SimDeadlock as e:
            harness = f"deadlock: {e}"
        recs = list(world.trace.recs)
        res = {"violations": [], "harness": harness, "nontrivial": False, "shape": world.trace.shape(), "faults": dict(world.faults),
               "probes": dict(world.probes), "sim_time": world.clock.t, "steps": world.loop.steps, "digest": world.trace.digest(),
               "states": [], "evals": 1, "trace_excerpt": world.trace.excerpt(400)}
        return res, out, recs
    finally:
        world.close()


async def _scenario(world, spec, crash_k):
    inc = world.new_incarnation()
    wf = inc.add_workflow("wf", spec)
    await inc.launch()
    world.crash_event = asyncio.Event()
    if crash_k is not None:
        SEAM.crash_plan = {"table": None, "k": SEAM.total_commits + crash_k, "inc": 1}
    base_commits = SEAM.total_commits
    hold = {}

    async def start():
        hold["h"] = wf.run(start_event=EV.Start0(uid=world.uid()), run_id="run1")
    inc.spawn(start())
    ce = asyncio.ensure_future(world.crash_event.wait())
    fin_sent = False

    async def fin(i):
        async def go():
            hold["h"].ctx.send_event(EV.Fin(uid=world.uid()))
        i.spawn(go())
    q = world.loop.quiesce()
    await asyncio.wait([q, ce], return_when=asyncio.FIRST_COMPLETED)
    if not world.crash_event.is_set() and "h" in hold and not hold["h"].is_done():
        world.trace.log("quiescent", phase="pre-fin")
        await fin(inc)
        fin_sent = True
        q = world.loop.quiesce()
        await asyncio.wait([q, ce], return_when=asyncio.FIRST_COMPLETED)
    out = {"crashed": False, "commits": SEAM.total_commits - base_commits}
    live = inc
    if world.crash_event.is_set():
        out["crashed"] = True
        out["open_at_crash"] = sorted(r["step"] for r in world.open_bodies.values())
        out["journal_at_crash"] = _journal(world)
        out["ops_at_crash"] = _ops(world)
        out["recv_msgs_at_crash"] = _recv_msgs(world)
        await world.kill(inc)
        world.open_bodies.clear()
        inc2 = world.new_incarnation()
        wf2 = inc2.add_workflow("wf", spec)
        await inc2.launch()
        live = inc2
        await world.loop.quiesce()
        world.trace.log("quiescent", phase="after-recovery")
        st = _status(world)
        if st == "PENDING":
            # the finishing event is durable once its notification row is committed; send it (again) only if it is not there
            if not _fin_known(world):
                async def go2():
                    from llama_agents.dbos.runtime import ExternalDBOSAdapter
                    from workflows.runtime.types.ticks import TickAddEvent
                    ad = inc2.runtime.get_external_adapter("run1")
                    await ad.send_event(TickAddEvent(event=EV.Fin(uid=world.uid())))
                await inc2.call(go2())
                await world.loop.quiesce()
    else:
        ce.cancel()
    out["status"] = _status(world)
    out["result"] = _result(world)
    out["state"] = _state(world)
    out["journal"] = _journal(world)
    world.trace.log("quiescent", phase="end")
    return out


def _q(world, sql, args=()):
    import sqlite3
    conn = sqlite3.connect(world.tmp.db())
    try:
        return conn.execute(sql, args).fetchall()
    except sqlite3.Error:
        return []
    finally:
        conn.close()


def _journal(world):
    return [r[0] for r in _q(world, "SELECT task_key FROM workflow_journal WHERE run_id='run1' ORDER BY seq_num")]


def _ops(world):
    return [(r[0], r[1]) for r in _q(world, "SELECT function_id, function_name FROM operation_outputs WHERE workflow_uuid='run1' ORDER BY function_id")]


def _recv_msgs(world) -> int:
    """recorded recv results that carry a message (i.e. notifications consumed by the run so far)"""
    import pickle
    n = 0
    for (o,) in _q(world, "SELECT output FROM operation_outputs WHERE workflow_uuid='run1' AND function_name='DBOS.recv'"):
        try:
            if o is not None and pickle.loads(o) is not None:
                n += 1
        except Exception:  # noqa: BLE001
            pass
    return n


def _status(world):
    r = _q(world, "SELECT status FROM workflow_status WHERE workflow_uuid='run1'")
    return r[0][0] if r else None


def _result(world):
    import pickle
    r = _q(world, "SELECT status, output, error FROM workflow_status WHERE workflow_uuid='run1'")
    if not r:
        return None
    st, o, e = r[0]
    if st == "SUCCESS":
        v = pickle.loads(o)
        return ("result", tuple(getattr(v, "result", None) or ()))
    if st == "ERROR":
        return ("error", type(pickle.loads(e)).__name__)
    return ("pending",)


def _state(world):
    r = _q(world, "SELECT state_json FROM workflow_state WHERE run_id='run1'")
    if not r:
        return None
    def keys(x):
        # the serialized DictState nests JSON-encoded values; collect the path keys (d.<step>_<path>) wherever they sit
        out = set()
        if isinstance(x, dict):
            for k, v in x.items():
                if isinstance(k, str) and (k.startswith("s0_") or k.startswith("w0_") or k.startswith("w1_") or k.startswith("h_")):
                    out.add(k)
                out |= keys(v)
        elif isinstance(x, list):
            for v in x:
                out |= keys(v)
        elif isinstance(x, str) and x[:1] in "{[":
            try:
                out |= keys(json.loads(x))
            except Exception:  # noqa: BLE001
                pass
        return out
    try:
        return json.dumps(sorted(keys(json.loads(r[0][0]))))
    except Exception:  # noqa: BLE001
        return r[0][0]


def _fin_known(world):
    import pickle
    for (m,) in _q(world, "SELECT message FROM notifications WHERE destination_uuid='run1'"):
        try:
            if type(getattr(pickle.loads(m), "event", None)).__name__ == "Fin":
                return True
        except Exception:  # noqa: BLE001
            pass
    for (o,) in _q(world, "SELECT output FROM operation_outputs WHERE workflow_uuid='run1' AND function_name='DBOS.recv'"):
        try:
            if o is not None and type(getattr(pickle.loads(o), "event", None)).__name__ == "Fin":
                return True
        except Exception:  # noqa: BLE001
            pass
    return False


def _prefix(recs, inc, m):
    """(task-done keys, tick descriptors, published events) of incarnation `inc` up to and including the processing of its m-th
    task completion (= everything before the (m+1)-th task-done record)"""
    done, ticks, pubs = [], [], []
    crash_seq = next((q for q, _, k, f in recs if k == "crash" and f.get("inc") == inc), None)
    for seq, t, kind, f in recs:
        if f.get("inc") != inc:
            continue
        if crash_seq is not None and seq > crash_seq:
            break       # what a dead process still did after its stop instant never happened
        if kind == "task-done":
            if len(done) == m:
                break
            done.append(f["key"])
        elif kind == "tick":
            ticks.append(json.dumps({k: v for k, v in f.items() if k not in ("inc", "run")}, sort_keys=True, default=str))
        elif kind == "publish":
            pubs.append(json.dumps({k: v for k, v in f.items() if k not in ("inc", "run")}, sort_keys=True, default=str))
    return done, ticks, pubs


def run(tape, thorough=False):
    import os
    thorough = thorough or os.environ.get("VERIF_TIER") == "thorough"
    res0, ref, recs0 = _sim(None, None, explore_tape=tape)
    values = list(tape.values)
    agg = res0
    agg["nontrivial_shapes"] = set()
    if res0["harness"] or not ref or ref.get("status") not in ("SUCCESS", "ERROR"):
        if not res0["harness"] and ref and ref.get("status") not in ("SUCCESS", "ERROR"):
            agg["violations"] = agg["violations"] + [{"rule": "C27.reference", "cause": {"status": ref.get("status")}, "seq": 0,
                                                     "msg": f"the uninterrupted run on the DBOS runtime did not complete: {ref.get('status')} {ref.get('result')}"}]
        agg["nontrivial_shapes"] = []
        return agg
    n = ref["commits"]
    if thorough:
        ks = list(range(1, n + 1))
    else:
        step = max(1, n // 6)
        ks = sorted(set([1, 2, n - 1, n] + list(range(step, n, step))))[:9]
        ks = [k for k in ks if 1 <= k <= n]
    for k in ks:
        res, out, recs = _sim(values, k)
        agg["evals"] += 1
        agg["steps"] += res.get("steps", 0)
        agg["sim_time"] += res.get("sim_time", 0.0)
        for kk in ("faults", "probes"):
            for a, b in res.get(kk, {}).items():
                agg[kk][a] = agg[kk].get(a, 0) + b
        agg["digest"] = (agg.get("digest") or "") + ":" + (res.get("digest") or "")
        if res["harness"]:
            agg["harness"] = agg["harness"] or res["harness"]
            continue
        if not out or not out.get("crashed"):
            continue

        def P(name):
            agg["probes"][name] = agg["probes"].get(name, 0) + 1
        P("recovered")
        m = len(out["journal_at_crash"])
        if out["open_at_crash"]:
            P("stop-with-step-in-flight")
        if m:
            P("stop-with-journal-entries")
        if k == n:
            P("stop-after-last-commit")
        vio = []
        pulls_j = sum(1 for x in out["journal_at_crash"] if x.startswith("__pull__"))
        # root cause attribute: a message that recv had consumed and recorded (one transaction) while the completion of that pull
        # task had not reached the journal yet
        cause = {"unjournaled_recv_at_stop": out.get("recv_msgs_at_crash", 0) > pulls_j}
        d1, t1, p1 = _prefix(recs, 1, m)
        d2, t2, p2 = _prefix(recs, 2, m)
        # the stopped process may have died in the middle of processing its last completions: what it recorded is a PREFIX of
        # what the recovered loop does while it replays the journaled completions
        t2, p2 = t2[:len(t1)] if len(t2) >= len(t1) else t2, p2[:len(p1)] if len(p2) >= len(p1) else p2
        if m and d2[:m] != out["journal_at_crash"][:m] and len(d2) >= m:
            vio.append(("C27.order", f"stop after commit #{k}: journal {out['journal_at_crash']} but the recovered loop was handed completions {d2}", cause))
        elif m and len(d2) >= m:
            if t2 != t1:
                i = next((j for j in range(min(len(t1), len(t2))) if t1[j] != t2[j]), min(len(t1), len(t2)))
                vio.append(("C27.ticks", f"stop after commit #{k}: during the replay of {m} journaled completions the recovered loop processed different ticks at #{i}: "
                            f"recorded {t1[i:i + 2]} vs replayed {t2[i:i + 2]} ({len(t1)}/{len(t2)} ticks)", cause))
            if p2 != p1:
                i = next((j for j in range(min(len(p1), len(p2))) if p1[j] != p2[j]), min(len(p1), len(p2)))
                vio.append(("C27.events", f"stop after commit #{k}: published events differ at #{i}: recorded {p1[i:i + 2]} vs replayed {p2[i:i + 2]}", cause))
        # bodies: a step whose output was recorded before the stop must not run again
        recorded = {(name.split(".", 1)[1]) for fid, name in out["ops_at_crash"] if name.startswith("wf.")}
        rec_counts: dict = {}
        for fid, name in out["ops_at_crash"]:
            if name.startswith("wf."):
                rec_counts[name.split(".", 1)[1]] = rec_counts.get(name.split(".", 1)[1], 0) + 1
        ent1: dict = {}
        ent2: dict = {}
        for seq, t, kind, f in recs:
            if kind == "enter":
                key = (f["step"], str(f["uid"]), f["retry"])
                (ent1 if f.get("inc") == 1 else ent2)[key] = (ent1 if f.get("inc") == 1 else ent2).get(key, 0) + 1
        exited1 = {(f["step"], str(f["uid"])) for _, _, kind, f in recs if kind == "exit" and f.get("inc") == 1 and f["exit"] not in ("cancelled",)}
        if any(kind == "dbos-step-replayed" and f.get("inc") == 2 and str(f.get("name", "")).startswith("wf.") for _, _, kind, f in recs):
            P("replayed-step-output")
        unexpected = [f for _, _, kind, f in recs if kind == "dbos-unexpected-step"]
        if unexpected:
            vio.append(("C27.nondeterministic", f"stop after commit #{k}: DBOSUnexpectedStepError during recovery: expected {unexpected[0].get('expected')} at function id "
                        f"{unexpected[0].get('fid')}, recorded {unexpected[0].get('recorded')}", cause))
        if out["status"] == "PENDING":
            vio.append(("C27.stuck", f"stop after commit #{k}: after recovery and the finishing event the run is still PENDING (journal {out['journal']})", cause))
        elif out["result"] != ref["result"] or out["state"] != ref["state"]:
            vio.append(("C27.result", f"stop after commit #{k}: recovered run ended with {out['result']} / state {out['state']}; uninterrupted run {ref['result']} / {ref['state']}", cause))
        for rule, msg, c in vio:
            agg["violations"] = agg["violations"] + [{"rule": rule, "cause": c, "seq": 0, "msg": msg}]
        if vio:
            agg["trace_excerpt"] = res.get("trace_excerpt")
        if m and out["open_at_crash"]:
            agg["nontrivial_shapes"].add(f"{res.get('shape')}:{k}")
            agg["nontrivial"] = True
            if not agg.get("sample"):
                agg["sample"] = {"program": "C12 generator (no delays, no handlers)", "stop_after_commit": k, "journal_at_stop": out["journal_at_crash"],
                                 "open_bodies_at_stop": out["open_at_crash"], "reference": ref["result"], "after_recovery": out["result"]}
    agg["nontrivial_shapes"] = sorted(agg["nontrivial_shapes"])
    return agg
