"""C19 — state stores implement the same state semantics, with isolated snapshots."""
from __future__ import annotations

import asyncio
import copy
import json

from sim.loop import SimLoop
from worlds.simple import simulate_simple
from worlds.stores import BaseSt, ChildSt, TmpDir, gen_value

ID = "C19"
LEVEL = "exploration"
QUICK_RUNS = 1500
THOROUGH_SECONDS = 600
RULE_TEXT = ("Seeded operation sequences (5-25 ops) over InMemoryStateStore and SqliteStateStore (file database), each with "
             "DictState, a typed model and a typed subclass (parent-type merge): get/set by dotted path through dict keys, list "
             "indices and model attributes, set_state (replace / parent merge), clear, edit_state with in-place mutation, "
             "get_state followed by mutation of the snapshot's top-level fields/keys, and 'restart' as the fault (reopen from the "
             "file / to_dict -> from_dict). Every return value and error class is compared with a plain nested-dict model, and the "
             "two backends with each other. Non-trivial: >=1 snapshot mutation or restart AND >=1 nested write; distinct = op-kind "
             "sequence. This property has no interleaving in it: it is claimed only as model-checked histories with restart as the fault."
             " Key pool includes the name 'memory' (the serializer's known-unserializable key) holding plain JSON values.")
COMPONENTS = {"real": ["workflows.context.state_store.InMemoryStateStore, llama_agents.server._store.sqlite.SqliteStateStore on stdlib sqlite3 (real C library, real file)"],
              "stub": [], "sim": ["loop (no concurrency used), op generator, nested-dict model"]}
ASSUMPTIONS = ["only well-defined path operations are generated (existing list indices; intermediate dicts created on set)",
               "SQLite file I/O is the real library; only process-level restart is modelled"]
EXPECTED_PROBES = ["snapshot-mutated", "restart", "parent-merge", "parent-merge-with-defaults", "edit_state", "nested-set", "list-index-path"]
LEVEL_TEXT = "Seeded exploration of operation histories with restart faults against an executable reference model (refinement check op by op) and backend-vs-backend."
LEVEL_NOTE = "Trusted: the 60-line nested-dict model in this file."

CFG = {}
KEYS = ["a", "meta", "items", "k1", "k2"]


class Model:
    """Reference: plain nested dict with a type tag."""

    def __init__(self, kind):
        self.kind = kind
        self.d = self.defaults()

    def defaults(self):
        if self.kind == "dict":
            return {}
        d = {"a": 0, "items": [], "meta": {}}
        if self.kind == "child":
            d["extra"] = "x"
        return d

    def get(self, path, default=...):
        cur = self.d
        try:
            for seg in path.split(".") if path else []:
                if isinstance(cur, dict):
                    cur = cur[seg]
                elif isinstance(cur, list):
                    cur = cur[int(seg)]
                else:
                    raise KeyError(seg)
        except (KeyError, IndexError, ValueError, TypeError):
            if default is not ...:
                return ("ok", default)
            return ("err", "ValueError")
        return ("ok", copy.deepcopy(cur))

    def set(self, path, value):
        segs = path.split(".")
        cur = self.d
        for seg in segs[:-1]:
            if isinstance(cur, dict):
                if seg not in cur:
                    cur[seg] = {}
                cur = cur[seg]
            elif isinstance(cur, list):
                cur = cur[int(seg)]
        if isinstance(cur, dict):
            cur[segs[-1]] = copy.deepcopy(value)
        elif isinstance(cur, list):
            cur[int(segs[-1])] = copy.deepcopy(value)


def _plain(state):
    if hasattr(state, "_data"):
        return json.loads(json.dumps(state._data, default=str))
    return json.loads(json.dumps(state.model_dump(), default=str))


def gen_path(tape, model, for_set):
    """a well-defined dotted path into the model state"""
    cur = model.d
    segs = []
    depth = tape.rng_int(1, 3, "path.depth")
    for i in range(depth):
        if isinstance(cur, dict):
            typed_top = model.kind != "dict" and i == 0
            if typed_top:
                k = tape.choice(sorted(cur), "path.field")       # typed models: only declared fields at the top
            else:
                pool = sorted(set(list(cur) + ["k1", "k2", "memory"]))
                k = tape.choice(pool, "path.key")
            segs.append(k)
            if k not in cur:
                if not for_set and tape.chance(50, 100, "path.stop"):
                    break
                if for_set:
                    # remaining segments create dicts
                    for _ in range(depth - i - 1):
                        segs.append(tape.choice(["k1", "k2", "memory"], "path.newkey"))
                break
            cur = cur[k]
        elif isinstance(cur, list):
            if not cur:
                break
            segs.append(str(tape.draw(len(cur), "path.idx")))
            cur = cur[int(segs[-1])]
        else:
            break
    return ".".join(segs)


def run(tape):
    kind = tape.choice(["dict", "dict", "base", "child"], "state.kind")
    nops = tape.rng_int(5, 25, "nops")
    td = TmpDir()

    async def scenario(world):
        from llama_agents.server._store.sqlite.sqlite_workflow_store import SqliteWorkflowStore
        from workflows.context.serializers import JsonSerializer
        from workflows.context.state_store import DictState, InMemoryStateStore
        ser = JsonSerializer()
        stype = {"dict": DictState, "base": BaseSt, "child": ChildSt}[kind]
        ws = SqliteWorkflowStore(td.db())
        stores = {"mem": InMemoryStateStore(stype()), "sqlite": ws.create_state_store("run1", state_type=stype)}
        model = Model(kind)
        ops = []
        world._ops = ops

        async def both(name, fn, expect):
            outs = {}
            for b, st in stores.items():
                try:
                    r = await fn(st)
                    outs[b] = ("ok", r)
                except Exception as e:  # noqa: BLE001
                    outs[b] = ("err", type(e).__name__)
            world.trace.log("op", op=name, mem=str(outs["mem"])[:80], sqlite=str(outs["sqlite"])[:80])
            for b, o in outs.items():
                if expect is not None and _norm(o) != _norm(expect):
                    world.violate("C19.model-diff", f"{name} on {b} store returned {o}, model says {expect} (ops so far: {ops})", backend=b, op=name.split('(')[0])
            if _norm(outs["mem"]) != _norm(outs["sqlite"]):
                world.violate("C19.backend-diff", f"{name}: in-memory {outs['mem']} vs sqlite {outs['sqlite']}", op=name.split('(')[0])

        async def verify(tag):
            exp = ("ok", copy.deepcopy(model.d))
            await both(f"full-read[{tag}]", lambda st: _full(st), exp)
            return not world.violations

        for i in range(nops):
            if world.violations:
                break
            op = tape.choice(["get", "get", "set", "set", "set_state", "clear", "edit", "snapshot", "restart", "get_default"], "op")
            ops.append(op)
            if op in ("get", "get_default"):
                path = gen_path(tape, model, False)
                if not path:
                    continue
                if op == "get":
                    await both(f"get({path})", lambda st: st.get(path), model.get(path))
                else:
                    await both(f"get({path},default=7)", lambda st: st.get(path, default=7), model.get(path, 7))
            elif op == "set":
                path = gen_path(tape, model, True)
                if not path:
                    continue
                if kind != "dict" and "." not in path:
                    # keep declared field types: a:int, items:list, meta:dict, extra:str
                    val = {"a": tape.draw(9, "v.a"), "items": [gen_value(tape, 1) for _ in range(tape.draw(3, "v.n"))],
                           "meta": {"k1": gen_value(tape, 1)}, "extra": tape.choice(["p", "q"], "v.e")}[path]
                else:
                    val = gen_value(tape)
                if "." in path:
                    world.probe("nested-set")
                if any(seg.isdigit() for seg in path.split(".")):
                    world.probe("list-index-path")
                model.set(path, val)
                await both(f"set({path},{json.dumps(val)})", lambda st: st.set(path, copy.deepcopy(val)), ("ok", None))
                await verify("after-set")
            elif op == "set_state":
                if kind == "dict":
                    new = {tape.choice(["k1", "k2", "a", "memory"], "ss.k"): gen_value(tape, 1)}
                    model.d = copy.deepcopy(new)
                    await both("set_state(replace)", lambda st: st.set_state(DictState(**copy.deepcopy(new))), ("ok", None))
                elif kind == "child" and tape.chance(60, 100, "parent-merge"):
                    world.probe("parent-merge")
                    nb = {"a": tape.draw(9, "ss.a"), "items": [tape.draw(3, "ss.i")], "meta": {"k2": tape.draw(3, "ss.m")}}
                    # the parent-typed state may leave fields at their class defaults: those overwrite the child's values too
                    given = {k: v for k, v in nb.items() if tape.chance(65, 100, "ss.given")}
                    full = dict({"a": 0, "items": [], "meta": {}}, **copy.deepcopy(given))
                    if len(given) < 3:
                        world.probe("parent-merge-with-defaults")
                    model.d.update(copy.deepcopy(full))     # every parent field merged, child field 'extra' kept
                    await both(f"set_state(parent-merge given={sorted(given)})", lambda st: st.set_state(BaseSt(**copy.deepcopy(given))), ("ok", None))
                else:
                    nb = {"a": tape.draw(9, "ss.a"), "items": [], "meta": {"k1": tape.draw(3, "ss.m")}}
                    if kind == "child":
                        nb["extra"] = tape.choice(["p", "q"], "ss.e")
                    model.d = copy.deepcopy(nb)
                    await both("set_state(replace)", lambda st: st.set_state(stype(**copy.deepcopy(nb))), ("ok", None))
                await verify("after-set_state")
            elif op == "clear":
                model.d = model.defaults()
                await both("clear()", lambda st: st.clear(), ("ok", None))
                await verify("after-clear")
            elif op == "edit":
                world.probe("edit_state")
                which = tape.draw(2, "edit.kind")
                v = tape.draw(9, "edit.v")

                async def ed(st):
                    async with st.edit_state() as s:
                        if kind == "dict":
                            s["k1"] = v
                            if which:
                                s["meta"] = {"k2": v}
                        else:
                            s.a = v
                            if which:
                                s.items = list(s.items) + [v]
                if kind == "dict":
                    model.d["k1"] = v
                    if which:
                        model.d["meta"] = {"k2": v}
                else:
                    model.d["a"] = v
                    if which:
                        model.d["items"] = list(model.d["items"]) + [v]
                await both("edit_state", ed, ("ok", None))
                await verify("after-edit")
            elif op == "snapshot":
                world.probe("snapshot-mutated")
                v = tape.draw(9, "snap.v")

                async def snap(st):
                    s = await st.get_state()
                    if kind == "dict":
                        s["k1"] = ("mut", v)
                        s["brand_new"] = v
                    else:
                        s.a = 1000 + v
                        s.meta = {"mutated": v}
                    return None
                aliased = False
                await verify("before-snapshot")
                if world.violations:
                    return ops
                await both("get_state+mutate-snapshot", snap, ("ok", None))
                exp = ("ok", copy.deepcopy(model.d))
                outs = {}
                for b, st in stores.items():
                    try:
                        outs[b] = ("ok", await _full(st))
                    except Exception as e:  # noqa: BLE001
                        outs[b] = ("err", type(e).__name__)
                    if _norm(outs[b]) != _norm(exp):
                        world.violate("C19.alias", f"after mutating a get_state() snapshot the {b} store reads {outs[b][1]}, expected unchanged {exp[1]}", backend=b, state=kind)
                        aliased = True
                if aliased:
                    world._nt = True
                    return ops      # the store no longer matches the model; later diffs would only be echoes
            elif op == "restart":
                world.probe("restart")
                world.fault("restart")
                try:
                    stores["mem"] = InMemoryStateStore.from_dict(json.loads(json.dumps(stores["mem"].to_dict(ser))), ser)
                    ws2 = SqliteWorkflowStore(td.db())
                    stores["sqlite"] = ws2.create_state_store("run1", state_type=stype)
                except Exception as e:  # noqa: BLE001
                    world.violate("C19.model-diff", f"restart raised {type(e).__name__}: {e}", backend="restart", op="restart")
                    return
                await verify("after-restart")
        world._nt = bool((world.probes.get("snapshot-mutated") or world.probes.get("restart")) and world.probes.get("nested-set"))
        return ops

    try:
        return simulate_simple(tape, CFG, scenario, None, nontrivial=lambda w, o: getattr(w, "_nt", False),
                               sample=lambda w, o: {"state": kind, "ops": o})
    finally:
        td.close()


async def _full(st):
    s = await st.get_state()
    return _plain(s)


def _norm(o):
    # compared as JSON TEXT: 1, 1.0 and true are equal in Python but are different stored values
    return json.dumps(o, default=str, sort_keys=True)
