"""C31 — timeout and cancellation stop the run cleanly and keep it resumable."""
from __future__ import annotations

import asyncio
import json

from sim.tape import Tape
from worlds import events as EV
from worlds.engine import _finish, build_workflow, drive_standard
from worlds.engine_common import simulate
from workflows import Context

ID = "C31"
LEVEL = "exploration"
QUICK_RUNS = 4000
THOROUGH_SECONDS = 600
RULE_TEXT = ("Arm A: generated workflows with a workflow timeout on the same grid as step durations (so the timeout lands "
             "before, exactly at, and after step completions) and cancel_run at tape-chosen instants; oracle on outcome, "
             "terminal event, active_steps vs. the engine's own open RUNNING slots, and step entries after the cancel event. "
             "Arm B: deterministic-result programs (path ids, idempotent writes, no failures) cancelled with cancel_run at a "
             "tape-chosen instant, then ctx.to_dict() -> JSON -> Context.from_dict -> run, compared with the uninterrupted "
             "reference. Arm C: a run with a workflow timeout is cancelled, serialized, resumed and then hangs; the resumed run must be ended "
             "by its timeout. Non-trivial: the timeout/cancel hit while >=1 step was active; distinct = (arm, outcome, trace shape).")
COMPONENTS = {"real": ["workflows.* engine incl. WorkflowHandler.cancel_run, TickTimeout/TickCancelRun reducer arms, to_dict after cancel"],
              "stub": ["llama_index_instrumentation"], "sim": ["loop, clock"]}
ASSUMPTIONS = ["a run that finishes at exactly the timeout instant may end either way (tie exempt)",
               "arm B programs have no failing steps, so the known C12 defects (lost delayed retry, lost in-flight attempt count) cannot interfere"]
EXPECTED_PROBES = ["cancel_run-wait-elapsed", "resumed-with-timeout-configured", "stop-returned-then-loop-stalled-past-deadline", "timeout-with-active-steps", "cancel-with-active-steps", "finished-before-timeout", "resumed-after-cancel"]
LEVEL_TEXT = "Seeded exploration of timeout/cancel instants against step completions, plus a differential resume-after-cancel arm."
LEVEL_NOTE = "Trusted: simulator loop/clock, recording adapter."

CFG_A = {"driver": "result", "p_retry": 20, "p_fail": 10, "p_cancel": 35, "timeouts": [None, 1, 2, 3, 5, 8], "p_stream": 30,
         "p_ret_none": 10, "fan_max": 3, "p_stall": 20, "stall_grid": [1, 2, 3, 6],
         # waits: several waiter timers (the 2000 s default, short ones that are answered or expire) next to the workflow timeout
         "p_wait": 25, "wait_timeouts": ["default", "default", 3, 6, None]}
CFG_B = {"driver": "finish", "grid": [0, 1, 1, 2, 3]}
CANCEL_WAIT = 5.0  # WorkflowHandler.cancel_run(timeout=5.0) default
TERMINAL = {"StopEvent", "Stop1", "WorkflowFailedEvent", "WorkflowCancelledEvent", "WorkflowTimedOutEvent"}


def check_a(world, spec, outcome) -> None:
    recs = world.trace.recs
    T = spec.get("timeout")
    slots: dict[str, set] = {}
    bodies: dict[str, set] = {}
    cancel_pub = None
    first_term = None
    for seq, t, kind, f in recs:
        if kind == "publish":
            if f["ev"] == "StepStateChanged":
                if f["state"] == "RUNNING":
                    slots.setdefault(f["step"], set()).add(f["worker"])
                elif f["state"] == "NOT_RUNNING":
                    slots.get(f["step"], set()).discard(f["worker"])
            elif f["ev"] in TERMINAL and first_term is None:
                first_term = (seq, t, f["ev"])
                if f["ev"] == "WorkflowTimedOutEvent":
                    act = sorted(f["active"])
                    want = sorted(s for s, v in slots.items() if v)
                    running = sorted(s for s, v in bodies.items() if v)
                    if want:
                        world.probe("timeout-with-active-steps")
                    if act != want:
                        world.violate("C31.active-steps", f"WorkflowTimedOutEvent.active_steps={act}; steps holding RUNNING slots: {want}; bodies executing: {running}", seq)
                    if T is not None and t < T - 1e-9:
                        world.violate("C31.false-timeout", f"timed out at t={t} < timeout {T}", seq, how="early")
                elif f["ev"] == "WorkflowCancelledEvent":
                    cancel_pub = seq
                    if any(v for v in slots.values()):
                        world.probe("cancel-with-active-steps")
        elif kind == "enter":
            bodies.setdefault(f["step"], set()).add(f["inv"])
            if cancel_pub is not None:
                world.violate("C31.step-after-cancel", f"step {f['step']} entered after WorkflowCancelledEvent", seq)
        elif kind == "exit":
            bodies.get(f["step"], set()).discard(f["inv"])
    err = type(outcome.get("error")).__name__ if outcome and "error" in outcome else None
    res = outcome is not None and "result" in outcome
    cancelled = any(k == "cancel-request" for _, _, k, _ in recs)
    if first_term is not None:
        seq, t, ev = first_term
        if ev in ("StopEvent", "Stop1") and T is not None and t < T - 1e-9:
            world.probe("finished-before-timeout")
            if err == "WorkflowTimeoutError":
                world.violate("C31.false-timeout", f"run finished at t={t} before timeout {T} but failed with WorkflowTimeoutError", seq, how="after-finish")
        if ev == "WorkflowTimedOutEvent" and err != "WorkflowTimeoutError":
            world.violate("C31.timeout-outcome", f"WorkflowTimedOutEvent published but outcome is {err or 'result'}", seq, how="event-without-error")
        if ev == "WorkflowCancelledEvent" and err != "WorkflowCancelledByUser":
            world.violate("C31.cancel-outcome", f"WorkflowCancelledEvent published but outcome is {err or 'result'}", seq, how="event-without-error")
    if err == "WorkflowTimeoutError" and T is not None:
        # the step that ends the run had returned its StopEvent and the loop then drained (a stable instant: nothing left
        # ready) strictly before the deadline: the control loop had every opportunity to finish the run first.  A return that
        # is followed by a blocked loop up to the deadline does NOT count: at the deadline that run is unfinished and the
        # property's first sentence prescribes the timeout (the earlier form of this rule flagged it: false alarm, DESIGN 9.3)
        early = [(seq, t) for seq, t, kind, f in recs if kind == "exit" and f.get("exit") == "returned-stop" and t < T - 1e-9]
        drained = [seq for seq, t, kind, f in recs if kind == "stable" and early and seq > early[0][0] and t < T - 1e-9]
        if early and drained:
            world.violate("C31.false-timeout", f"a step returned the StopEvent at t={early[0][1]} and the loop drained before timeout {T}, yet the run "
                          f"failed with WorkflowTimeoutError", early[0][0], how="stop-returned-before-deadline")
        elif early:
            world.probe("stop-returned-but-loop-blocked-until-deadline")
    if err == "WorkflowTimeoutError" and (first_term is None or first_term[2] != "WorkflowTimedOutEvent"):
        world.violate("C31.timeout-outcome", f"WorkflowTimeoutError without a preceding WorkflowTimedOutEvent (first terminal: {first_term})", how="error-without-event")
    if err == "CancelledError" and cancelled:
        # nobody hard-cancels in this arm (no handler.cancel(), no body raises it): the graceful cancel_run must end the run
        # with WorkflowCancelledByUser (or the run ends first with its own result/failure/timeout)
        world.violate("C31.cancel-outcome", f"cancel_run() was requested and awaiting the handler raised asyncio.CancelledError (first terminal: {first_term})",
                      how="hard-cancelled")
    if err == "WorkflowCancelledByUser" and (first_term is None or first_term[2] != "WorkflowCancelledEvent"):
        world.violate("C31.cancel-outcome", f"WorkflowCancelledByUser without a preceding WorkflowCancelledEvent (first terminal: {first_term})", how="error-without-event")
    if T is not None and outcome is not None and outcome.get("capped") and first_term is None and world.clock.t >= T:
        world.violate("C31.timeout-outcome", f"timeout {T} is due (t={world.clock.t}) but the run neither ended nor advanced within the step bound",
                      how="not-within-step-bound")
    if T is not None and outcome is not None and outcome.get("hung"):
        world.violate("C31.timeout-outcome", f"run with timeout {T} is still unfinished at quiescence (t={world.clock.t})", how="never-timed-out")
    if T is not None and res:
        ex = [t for _, t, kind, f in recs if kind == "exit" and f.get("exit") == "returned-stop" and t < T - 1e-9]
        if ex and first_term is not None and first_term[1] > T + 1e-9:
            world.probe("stop-returned-then-loop-stalled-past-deadline")
    t_req = None
    for seq, t, kind, f in recs:
        if kind == "cancel-request":
            t_req = t
        elif kind == "cancel-returned" and not f["done"]:
            # cancel_run(timeout=5.0) is a bounded wait: once the 5 s have elapsed (loop blocked by step bodies) it may return
            # while the run is still unwinding; the outcome rules above still require WorkflowCancelledByUser in the end
            if t_req is not None and t - t_req >= CANCEL_WAIT:
                world.probe("cancel_run-wait-elapsed")
                continue
            world.violate("C31.cancel-outcome", f"cancel_run() returned {t - (t_req or 0)}s after the call (< its {CANCEL_WAIT}s wait) but the run is still live",
                          seq, how="not-ended")
    world._nt = bool(world.probes.get("timeout-with-active-steps") or world.probes.get("cancel-with-active-steps"))


async def scenario_b(world, spec):
    wf = build_workflow(spec, world)
    start = EV.Start0(uid=world.uid())
    world.trace.log("emit", uid=start.uid, ev="Start0", by="ext", via="start", target=None, parent=-1, inv=0)
    handler = wf.run(start_event=start, run_id="run1")
    consumer1 = asyncio.ensure_future(world.consume(handler, "c1"))
    d = sum(world.tape.choice(world.cfg["grid"], "cancel.at") for _ in range(world.tape.rng_int(1, 3, "cancel.n")))
    outcome = {"handler": handler, "wf": wf, "resumed": False}
    if d:
        sl = asyncio.ensure_future(asyncio.sleep(d))
        q = world.loop.quiesce()
        await asyncio.wait([sl, q, handler._result_task], return_when=asyncio.FIRST_COMPLETED)
        sl.cancel()
    else:
        await asyncio.sleep(0)
    if handler.is_done():
        return await _finish(world, spec, handler, consumer1, [], outcome)
    world.fault("cancel-run")
    world.trace.log("cancel-request", open_bodies=sorted(r["step"] for r in world.open_bodies.values()))
    if world.open_bodies:
        world.probe("cancel-with-active-steps")
    await handler.cancel_run()
    world.trace.log("cancel-returned", done=handler.is_done())
    try:
        js = json.loads(json.dumps(handler.ctx.to_dict()))
    except BaseException as e:  # noqa: BLE001
        world.violate("C31.not-resumable", f"ctx.to_dict() after cancel_run raised {type(e).__name__}: {e}", how="to_dict-raises")
        return outcome
    world.dead_runs["run1"] = world.trace.log("snapshot", after="cancel")
    wf2 = build_workflow(spec, world)
    try:
        ctx2 = Context.from_dict(wf2, js)
        handler2 = wf2.run(ctx=ctx2, run_id="run2")
    except BaseException as e:  # noqa: BLE001
        world.violate("C31.not-resumable", f"resuming from the cancelled context raised {type(e).__name__}: {e}", how="resume-raises")
        return outcome
    world.probe("resumed-after-cancel")
    outcome.update(resumed=True, handler=handler2, wf=wf2)
    consumer2 = asyncio.ensure_future(world.consume(handler2, "c2"))
    if world.tape.chance(40, 100, "cancel.again?"):
        # a second round: the resumed run works for a while, is cancelled too, and its context is serialized and resumed again
        d2 = world.tape.choice([1, 1, 2, 3], "cancel2.at")
        sl = asyncio.ensure_future(asyncio.sleep(d2))
        q = world.loop.quiesce()
        await asyncio.wait([sl, q, handler2._result_task], return_when=asyncio.FIRST_COMPLETED)
        sl.cancel()
        if not handler2.is_done():
            world.fault("cancel-run")
            world.trace.log("cancel-request", open_bodies=sorted(r["step"] for r in world.open_bodies.values()), second=True)
            await handler2.cancel_run()
            try:
                js2 = json.loads(json.dumps(handler2.ctx.to_dict()))
            except BaseException as e:  # noqa: BLE001
                world.violate("C31.not-resumable", f"ctx.to_dict() of a run that was itself resumed from a cancelled context, after its own cancel_run, raised "
                              f"{type(e).__name__}: {e}", how="to_dict-raises-second-round")
                return outcome
            world.dead_runs["run2"] = world.trace.log("snapshot", after="cancel", second=True)
            wf3 = build_workflow(spec, world)
            try:
                handler3 = wf3.run(ctx=Context.from_dict(wf3, js2), run_id="run3")
            except BaseException as e:  # noqa: BLE001
                world.violate("C31.not-resumable", f"resuming a second time raised {type(e).__name__}: {e}", how="resume-raises-second-round")
                return outcome
            world.probe("cancelled-and-resumed-twice")
            consumer2.cancel()
            outcome.update(handler=handler3, wf=wf3)
            consumer3 = asyncio.ensure_future(world.consume(handler3, "c3"))
            return await _finish(world, spec, handler3, consumer3, [], outcome)
    return await _finish(world, spec, handler2, consumer2, [], outcome)


_LAST: dict = {}


def _arm_c(tape):
    """Arm C: a run with a workflow timeout is cancelled, serialized and resumed; the resumed run hangs (a wait nobody answers)
    and must still be ended by its timeout."""
    T_ = tape.choice([2, 4, 8], "c.timeout")

    def gen_c(t, cfg):
        steps = [
            {"name": "s0", "accepts": ["Start0"], "workers": 1, "sync": False, "retry": None, "role": "step",
             "scripts": {"Start0": [("work",), ("pret", "E0")]}, "returns": ["E0"], "stop": False},
            {"name": "w0", "accepts": ["E0"], "workers": 1, "sync": False, "retry": None, "role": "step",
             "scripts": {"E0": [("work",), ("wait", "Resp0", False, None, "w", False), ("ret", "stop")]}, "returns": [], "stop": True},
        ]
        return {"steps": steps, "types": ["E0"], "timeout": T_, "driver": "result", "disable_validation": False}

    async def scenario_c(world, spec):
        wf = build_workflow(spec, world)
        start = EV.Start0(uid=world.uid())
        handler = wf.run(start_event=start, run_id="run1")
        consumer1 = asyncio.ensure_future(world.consume(handler, "c1"))
        d = world.tape.choice([0, 1, 1, 2, 3], "c.cancel.at")
        if d:
            await asyncio.sleep(d)
        else:
            await asyncio.sleep(0)
        outcome = {"handler": handler, "wf": wf, "resumed": False}
        if handler.is_done():
            return outcome
        world.fault("cancel-run")
        world.trace.log("cancel-request", open_bodies=sorted(r["step"] for r in world.open_bodies.values()))
        await handler.cancel_run()
        js = json.loads(json.dumps(handler.ctx.to_dict()))
        world.dead_runs["run1"] = world.trace.log("snapshot", after="cancel")
        wf2 = build_workflow(spec, world)
        handler2 = wf2.run(ctx=Context.from_dict(wf2, js), run_id="run2")
        t_resume = world.clock.t
        world.probe("resumed-with-timeout-configured")
        consumer2 = asyncio.ensure_future(world.consume(handler2, "c2"))
        q = world.loop.quiesce()
        await asyncio.wait([q, handler2._result_task], return_when=asyncio.FIRST_COMPLETED)
        outcome.update(resumed=True, t_resume=t_resume, done=handler2.is_done(), t_end=world.clock.t)
        if handler2.is_done():
            try:
                outcome["result"] = handler2._result_task.result()
            except BaseException as e:  # noqa: BLE001
                outcome["error"] = e
        for c in (consumer1, consumer2):
            c.cancel()
        return outcome

    def check_c(world, spec, outcome):
        world._nt = bool(outcome and outcome.get("resumed"))
        if not outcome or not outcome.get("resumed"):
            return
        pubs = [f["ev"] for _, _, k, f in world.trace.recs if k == "publish" and f.get("run") == "run2"]
        if not outcome["done"]:
            world.violate("C31.timeout-outcome", f"run resumed from a cancelled context (workflow timeout {T_}s) is still unfinished at quiescence, "
                          f"{world.clock.t - outcome['t_resume']}s after the resume: no WorkflowTimedOutEvent, no WorkflowTimeoutError", how="resumed-run-never-timed-out")
        elif type(outcome.get("error")).__name__ != "WorkflowTimeoutError" or "WorkflowTimedOutEvent" not in pubs:
            world.violate("C31.timeout-outcome", f"resumed hanging run ended with {outcome.get('error')!r} / {outcome.get('result')!r}; published {pubs[-3:]}",
                          how="resumed-run-wrong-end")
    return simulate(tape, {"driver": "result", "grid": [0, 1, 1, 2], "quiesce_gap": 100.0}, check_c, gen=gen_c, scenario=scenario_c, nontrivial=lambda w, s, o: w._nt)


def run(tape):
    arm = tape.draw(7, "arm7")
    if arm == 0:
        return _arm_c(tape)
    if tape.draw(3, "arm") != 0:
        def gen_a(t, cfg):
            from worlds.engine import gen_spec
            spec = gen_spec(t, cfg)
            # Workflow(verbose=True) wraps the run adapters in the logging adapter: the outcome rules are the same
            spec["verbose"] = t.chance(20, 100, "verbose?")
            return spec
        return simulate(tape, CFG_A, check_a, gen=gen_a, nontrivial=lambda w, s, o: w._nt, check_on_cap=True)
    from props import c12

    def gen_b(t, cfg):
        spec = c12.gen(t, cfg)
        for s in spec["steps"]:
            s["scripts"] = {k: [a for a in sc if a[0] != "failpath"] for k, sc in s["scripts"].items()}
        return spec

    def chk(world, spec, outcome):
        _LAST["s"] = c12._summary(world, outcome)
        _LAST["resumed"] = bool(outcome and outcome.get("resumed"))
        # events handed to a run that was then cancelled (first or second round) and still in its mailbox at that moment
        pend = set()
        for run, dead_seq in world.dead_runs.items():
            p = set()
            for seq, t, kind, f in world.trace.recs:
                if f.get("run") != run or seq > dead_seq:
                    continue
                if kind == "deliver" and f.get("tick") == "add_event":
                    p.add(f["uid"])
                elif kind == "tick" and f["tick"] == "add_event":
                    p.discard(f["uid"])
            pend |= p
        _LAST["undelivered"] = bool(pend)
        if pend:
            world.probe("cancelled-with-undelivered-events")
        for st, path, seq in c12.reexecuted_completed(world.live_recs()):
            world.violate("C31.not-resumable", f"after cancel_run + to_dict + resume, step {st} ran again for {path!r} although it had completed "
                          f"before the cancellation", seq, how="restarted-completed-work")
        world._nt = _LAST["resumed"] and bool(world.probes.get("cancel-with-active-steps"))
    res1 = simulate(tape, CFG_B, chk, gen=gen_b, scenario=scenario_b, nontrivial=lambda w, s, o: w._nt)
    s1, resumed = _LAST.get("s"), _LAST.get("resumed")
    t2 = Tape(replay=list(tape.values))
    t2.draw(7, "arm7")
    t2.draw(3, "arm")
    res2 = simulate(t2, CFG_B, lambda w, s, o: _LAST.__setitem__("ref", c12._summary(w, o)), gen=gen_b, scenario=drive_standard)
    ref = _LAST.get("ref")
    if res1["harness"] is None and res2["harness"] is None and resumed and s1 and ref and (s1["res"] != ref["res"] or s1["store"] != ref["store"]):
        res1["violations"] = res1["violations"] + [{"rule": "C31.not-resumable", "cause": {"how": "different-result", "mailbox_nonempty_at_cancel": _LAST.get("undelivered", False)}, "seq": 0,
                                                    "msg": f"run resumed after cancel_run ended with {s1}, uninterrupted reference {ref}"}]
    res1["harness"] = res1["harness"] or res2["harness"]
    res1["evals"] = 2
    return res1
