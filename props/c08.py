"""C08 — exhausted failures route to the owning error handler within budget."""
from __future__ import annotations

from sim.tape import Tape
from worlds.engine_common import simulate

ID = "C08"
LEVEL = "exploration"
QUICK_RUNS = 2000
THOROUGH_SECONDS = 600
RULE_TEXT = ("Generated workflows with failing steps (with/without retries) and @catch_error layouts: scoped to 1-2 steps, "
             "wildcard, both, none; max_recoveries 1..3; handlers that re-emit the failing step's input (lineage re-enters "
             "the handler), emit a downstream event, return None, or fail themselves; each program is run twice on the same "
             "tape, with graph validation enabled and disabled. Non-trivial: a handler was entered >=2 times on one lineage "
             "or a budget was exhausted; distinct = abstract trace shape."
             " A run that raises a step's exception must have published WorkflowFailedEvent (rule no-failed-event).")
COMPONENTS = {"real": ["workflows.* engine incl. validate._collect_catch_error_handlers"], "stub": ["llama_index_instrumentation"], "sim": ["loop, clock"]}
ASSUMPTIONS = ["owner = scoped handler listing the step, else wildcard, else none; handler steps are never routed",
               "lineage = chain of parent events (returned or sent) back to the start event"]
EXPECTED_PROBES = ["handler-entered", "budget-exhausted", "lineage-reentry", "no-owner-failure", "handler-failed", "validation-disabled-run"]
LEVEL_TEXT = ("Seeded exploration of handler layouts x failure patterns x lineages; oracle = independent owner/budget model over "
              "the uid lineage recorded by the step bodies; the validation-independence clause is checked differentially on "
              "the same tape.")
LEVEL_NOTE = "Trusted: simulator loop, body lineage logging (parent uid stamped on every emitted event)."

CFG = {"driver": "finish", "grid": [0, 0, 1, 2]}


def gen(tape, cfg):
    n0 = tape.rng_int(1, 3, "n0")
    two = tape.chance(50, 100, "two-stage")
    steps = []
    steps.append({"name": "s0", "accepts": ["Start0"], "workers": 1, "sync": False, "retry": None, "role": "step",
                  "scripts": {"Start0": [("work",), ("send", "E0", None, n0), ("ret", None)]}, "returns": ["E0"], "stop": False})

    def pol():
        if tape.chance(40, 100, "retry?"):
            return {"retry": None, "wait": ("none",) if tape.chance(70, 100, "nowait") else ("fixed", 1), "stop": ("attempt", tape.rng_int(1, 3, "pol.n"))}
        return None

    k0 = -1 if tape.chance(50, 100, "w0.always") else tape.rng_int(0, 2, "w0.k")
    steps.append({"name": "w0", "accepts": ["E0"], "workers": tape.rng_int(1, 3, "w0.w"), "sync": False, "retry": pol(), "role": "step",
                  "scripts": {"E0": [("work",), ("failseq", ["ValueError"], k0), ("ret", "E1" if two else None)]},
                  "returns": ["E1"] if two else [], "stop": False})
    if two:
        k1 = -1 if tape.chance(40, 100, "w1.always") else tape.rng_int(0, 2, "w1.k")
        steps.append({"name": "w1", "accepts": ["E1"], "workers": tape.rng_int(1, 2, "w1.w"), "sync": False, "retry": pol(), "role": "step",
                      "scripts": {"E1": [("work",), ("failseq", ["KeyError"], k1), ("ret", None)]}, "returns": [], "stop": False})
    work = ["w0"] + (["w1"] if two else [])
    layout = tape.draw(6, "layout")   # 0 none, 1 wildcard, 2 scoped(one), 3 scoped(all), 4 scoped+wildcard, 5 two scoped
    hs = []
    if layout == 1:
        hs = [("hw", None)]
    elif layout == 2:
        hs = [("ha", [tape.choice(work, "scope")])]
    elif layout == 3:
        hs = [("ha", list(work))]
    elif layout == 4:
        hs = [("ha", [tape.choice(work, "scope")]), ("hw", None)]
    elif layout == 5 and two:
        hs = [("ha", ["w0"]), ("hb", ["w1"])]
    elif layout == 5:
        hs = [("ha", ["w0"]), ("hw", None)]
    for name, scope in hs:
        act = tape.draw(5, "h.act")
        outs = ["E0"] + (["E1"] if two else [])
        if act == 0:
            sc = [("work",), ("ret", "E0")]
        elif act == 1 and two:
            sc = [("work",), ("ret", "E1")]
        elif act == 2:
            sc = [("work",), ("ret", None)]
        elif act == 3:
            sc = [("work",), ("failseq", ["SimOtherError"], -1), ("ret", None)]
        else:
            sc = [("send", "E0", None, 1), ("ret", None)]
        steps.append({"name": name, "accepts": ["StepFailedEvent"], "workers": 1, "sync": False, "retry": None, "role": "catch",
                      "for_steps": scope, "max_recoveries": tape.rng_int(1, 3, "h.max"),
                      "scripts": {"StepFailedEvent": sc}, "returns": outs, "stop": False})
    steps.append({"name": "zfin", "accepts": ["Fin"], "workers": 1, "sync": False, "retry": None, "role": "step",
                  "scripts": {"Fin": [("ret", "stop")]}, "returns": [], "stop": True})
    return {"steps": steps, "types": ["E0", "E1"] if two else ["E0"], "timeout": None, "driver": "finish",
            "disable_validation": bool(cfg.get("disable_validation"))}


def _h(u):
    return tuple(_h(x) for x in u) if isinstance(u, (list, tuple)) else u


def ancestors(world, x):
    out = []
    seen = 0
    while x is not None and x != -1 and seen < 200:
        seen += 1
        out.append(x)
        if isinstance(x, tuple) and x and x[0] == "F":
            x = _h(x[2])
        else:
            x = world.parent_of.get(x)
    return out


def check(world, spec, outcome) -> None:
    recs = world.trace.recs
    handlers = {s["name"]: s for s in spec["steps"] if s["role"] == "catch"}
    dv = "disabled" if spec.get("disable_validation") else "enabled"
    if dv == "disabled":
        world.probe("validation-disabled-run")

    def owner(step):
        if step in handlers:
            return None
        for h, hs in handlers.items():
            if hs["for_steps"] is not None and step in hs["for_steps"]:
                return h
        for h, hs in handlers.items():
            if hs["for_steps"] is None:
                return h
        return None

    entries = []       # (handler, failing step, in_uid) in order
    summary = {"entries": 0, "failed_step": None, "outcome": None}
    reentry = exhausted = False
    last_failed_tick = None
    for seq, t, kind, f in recs:
        if kind == "step-failed-event":
            h, s, u = f["handler"], f["step"], _h(f["in_uid"])
            own = owner(s)
            if h != own:
                world.violate("C08.wrong-handler", f"StepFailedEvent of step {s} entered handler {h}; owner is {own}", seq, validation=dv)
            prior = sum(1 for a in ancestors(world, u) if isinstance(a, tuple) and a[0] == "F" and owner(a[1]) == h
                        and (h, a[1], _h(a[2])) in entries)
            if prior >= 1:
                reentry = True
            if prior + 1 > handlers[h]["max_recoveries"]:
                world.violate("C08.over-budget", f"handler {h} entered {prior + 1} times on one lineage, max_recoveries={handlers[h]['max_recoveries']}", seq, validation=dv)
            entries.append((h, s, u))
            world.probe("handler-entered")
        elif kind == "tick" and f["tick"] == "step_result" and any(r[0] == "failed" for r in f["res"]):
            last_failed_tick = (f["step"], _h(f["uid"]), seq)
        elif kind == "publish" and f["ev"] == "WorkflowFailedEvent":
            s = f["step"]
            summary["failed_step"] = s
            u = last_failed_tick[1] if last_failed_tick and last_failed_tick[0] == s else None
            own = owner(s)
            if s in handlers:
                world.probe("handler-failed")
            if own is not None and u is not None:
                prior = sum(1 for a in ancestors(world, u) if isinstance(a, tuple) and a[0] == "F" and owner(a[1]) == own
                            and (own, a[1], _h(a[2])) in entries)
                if prior + 1 <= handlers[own]["max_recoveries"]:
                    world.violate("C08.under-routed", f"step {s} (uid {u}) exhausted retries with {prior} prior recoveries by {own} "
                                  f"(max {handlers[own]['max_recoveries']}); run failed instead of entering the handler", seq, validation=dv)
                else:
                    exhausted = True
                    world.probe("budget-exhausted")
            elif own is None and s not in handlers:
                world.probe("no-owner-failure")
            err = outcome.get("error") if outcome else None
            if err is not None and u is not None and not isinstance(u, tuple):
                if f["exc"] != type(err).__name__ or not str(err).strip("'").startswith(f"{s}/{u}/"):
                    world.violate("C08.fail-shape", f"run failed with {err!r}; original exception of step {s} uid {u} expected", seq, validation=dv)
    err = outcome.get("error") if outcome else None
    if err is not None and summary["failed_step"] is None and last_failed_tick is not None and str(err).strip("'").startswith(f"{last_failed_tick[0]}/"):
        # the run raised a step's exception: "fails with the original exception AND a WorkflowFailedEvent"
        world.violate("C08.no-failed-event", f"run failed with {err!r} (step {last_failed_tick[0]}) but no WorkflowFailedEvent was published on its stream", last_failed_tick[2], validation=dv)
    summary["entries"] = len(entries)
    summary["outcome"] = "error:" + type(outcome["error"]).__name__ if outcome and "error" in outcome else ("result" if outcome and "result" in outcome else "other")
    if reentry:
        world.probe("lineage-reentry")
    world._summary = summary
    world._nt = reentry or exhausted


def run(tape):
    res1 = simulate(tape, dict(CFG, disable_validation=False), check, gen=gen, nontrivial=lambda w, s, o: w._nt,
                    setup=lambda w, s: None)
    s1 = _LAST.get("summary")
    t2 = Tape(replay=list(tape.values))
    res2 = simulate(t2, dict(CFG, disable_validation=True), check, gen=gen, nontrivial=lambda w, s, o: w._nt)
    s2 = _LAST.get("summary")
    if res1["harness"] is None and res2["harness"] is None and s1 is not None and s2 is not None:
        if (s1["outcome"], s1["entries"], s1["failed_step"]) != (s2["outcome"], s2["entries"], s2["failed_step"]):
            res1["violations"] = res1["violations"] + [{
                "rule": "C08.validation-dependent", "cause": {"differs": "handler-entries" if s1["entries"] != s2["entries"] else "outcome"},
                "seq": 0, "msg": f"same program and tape: with validation {s1}, with disable_validation=True {s2}"}]
    res1["violations"] = res1["violations"] + res2["violations"]
    for k in ("faults", "probes"):
        for kk, v in res2.get(k, {}).items():
            res1[k][kk] = res1[k].get(kk, 0) + v
    res1["digest"] = (res1.get("digest") or "") + ":" + (res2.get("digest") or "")
    res1["harness"] = res1["harness"] or res2["harness"]
    res1["evals"] = 2
    return res1


_LAST: dict = {}
_orig_check = check


def check(world, spec, outcome):  # noqa: F811
    _LAST.pop("summary", None)
    _orig_check(world, spec, outcome)
    _LAST["summary"] = world._summary
