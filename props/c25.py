"""C25 — the keyed lock gives per-key mutual exclusion and cleans up."""
from __future__ import annotations

import asyncio

from worlds.simple import simulate_simple

ID = "C25"
LEVEL = "fault_enumeration"
QUICK_RUNS = 1500
THOROUGH_SECONDS = 600
RULE_TEXT = ("2-6 tasks over 1-3 keys entering KeyedLock critical sections (some twice: re-taking the key straight after releasing it, "
             "with or without yielding; a third of the configurations on two KeyedLock objects sharing key names, which must not "
             "interfere) with start delays and hold times on a grid that produces "
             "ties; task cancellation is the fault: for each sampled configuration the run is repeated with one victim task "
             "cancelled at the j-th scheduling point after a grid instant, j ENUMERATED over 0..J (quick: J<=6 per configuration; "
             "every (victim, instant, j) triple is one evaluation). Non-trivial: the cancellation hit a task that was waiting for "
             "or holding a lock while another task contended for the same key; distinct = abstract trace shape.")
COMPONENTS = {"real": ["llama_agents.server._keyed_lock.KeyedLock on asyncio.Lock"], "stub": [], "sim": ["loop, clock, canceller"]}
ASSUMPTIONS = ["cancellation is delivered between two loop callbacks, as asyncio does"]
EXPECTED_PROBES = ["cancel-while-waiting", "cancel-while-holding", "contended-key", "re-entered-after-release"]
LEVEL_TEXT = ("Fault enumeration over cancellation points (exhaustive in j for each sampled configuration/instant) on top of seeded "
              "sampling of task configurations; invariants checked at every stable instant and at quiescence.")
LEVEL_NOTE = "Trusted: simulator loop. 'exhaustive' refers only to the enumerated cancellation index dimension of each sampled configuration."
EVIDENCE_EXTRA = {"exhaustive": False, "enumerated_dimension": "cancellation scheduling index j in 0..6 for each sampled (configuration, victim, instant)"}

CFG = {"quiesce_gap": 100.0}


def _scenario(cfg, victim, at, j):
    async def scenario(world):
        from llama_agents.server._keyed_lock import KeyedLock
        lock_objs = [KeyedLock() for _ in range(cfg.get("nobj", 1))]
        locks = lock_objs[0]
        st = {"inside": {}, "state": {}, "entered": set(), "cancelled": set()}
        world._st = st
        world._locks = locks

        async def worker(i, key, start, hold, again=None, obj=0):
            name = f"t{i}"
            lk = lock_objs[obj % len(lock_objs)]
            # bookkeeping key: the (lock object, key) pair; different KeyedLock objects are independent locks
            bk = key if len(lock_objs) == 1 else f"{obj % len(lock_objs)}:{key}"
            st["state"][name] = ("idle", bk)
            try:
                if start:
                    await asyncio.sleep(start)
                for section in range(2 if again else 1):
                    if section and again == "yield":
                        await asyncio.sleep(0)
                    # (again == "now": the same task takes the key again straight after releasing it, without yielding to the loop)
                    st["state"][name] = ("waiting", bk)
                    world.trace.log("request", task=name, key=bk, section=section)
                    async with lk(key):
                        st["state"][name] = ("inside", bk)
                        st["entered"].add(name)
                        ins = st["inside"].setdefault(bk, set())
                        ins.add(name)
                        world.trace.log("enter", task=name, key=bk, inside=sorted(ins))
                        if section:
                            world.probe("re-entered-after-release")
                        if len(ins) > 1:
                            world.violate("C25.mutex", f"tasks {sorted(ins)} are inside the critical section of key {bk} together")
                        try:
                            if hold:
                                await asyncio.sleep(hold)
                            else:
                                await asyncio.sleep(0)
                        finally:
                            ins.discard(name)
                            world.trace.log("leave", task=name, key=bk)
                st["state"][name] = ("done", bk)
            except asyncio.CancelledError:
                was = st["state"][name][0]
                st["state"][name] = ("cancelled", bk)
                st["cancelled"].add(name)
                world.trace.log("cancelled", task=name, key=bk, was=was)
                if was == "waiting":
                    world.probe("cancel-while-waiting")
                elif was == "inside":
                    world.probe("cancel-while-holding")
                raise

        tasks = [asyncio.ensure_future(worker(i, *w)) for i, w in enumerate(cfg["workers"])]

        def stable():
            for name, (s, key) in st["state"].items():
                if s == "waiting" and not st["inside"].get(key):
                    if not any(getattr(getattr(o, "_main_lock", None), "locked", lambda: False)() for o in lock_objs):
                        # somebody else may be between acquire and our bookkeeping only inside one callback; at a stable instant not
                        holders = [n for n, (s2, k2) in st["state"].items() if s2 == "inside" and k2 == key]
                        if not holders:
                            world.violate("C25.cross-key-block", f"task {name} waits for key {key} although nobody holds it "
                                          f"(other keys held: {sorted(k for k, v in st['inside'].items() if v)})")
        world.stable_checks.append(stable)

        if victim is not None:
            async def canceller():
                if at:
                    await asyncio.sleep(at)
                for _ in range(j):
                    await asyncio.sleep(0)
                t = tasks[victim]
                if not t.done():
                    world.fault("task-cancel")
                    world.trace.log("cancel", task=f"t{victim}", j=j, state=st["state"][f"t{victim}"][0])
                    t.cancel()
            asyncio.ensure_future(canceller())
        q = world.loop.quiesce()
        allt = asyncio.ensure_future(asyncio.gather(*tasks, return_exceptions=True))
        await asyncio.wait([q, allt], return_when=asyncio.FIRST_COMPLETED)
        world.trace.log("quiescent")
        for name, (s, key) in st["state"].items():
            if s not in ("done", "cancelled"):
                world.violate("C25.starved", f"task {name} never entered/finished (state {s}) for key {key}")
        # whatever per-key bookkeeping the lock keeps (today: _locks and _refs) must be empty again; looked up generically so that a
        # restructured KeyedLock is still judged instead of crashing the harness
        leftover = {f"{n}.{k}" if len(lock_objs) > 1 else k: (sorted(map(str, v)) if not isinstance(v, dict) else {str(a): str(b) for a, b in v.items()})
                    for n, o in enumerate(lock_objs)
                    for k, v in list(vars(o).items()) + [(k2, v2) for k2, v2 in vars(type(o)).items() if not k2.startswith("__")]
                    if isinstance(v, (dict, set, list)) and v}
        if leftover:
            world.violate("C25.leak", f"lock state remains after all holders and waiters are gone: {leftover}")
        return st
    return scenario


def run(tape):
    nkeys = tape.rng_int(1, 3, "nkeys")
    n = tape.rng_int(2, 6, "ntasks")
    grid = [0, 0, 1, 1, 2, 3]
    # a third of the configurations use two KeyedLock objects with the same keys (the server keys several of them by run id)
    nobj = 2 if tape.draw(3, "nobj") == 0 else 1
    cfg = {"nobj": nobj,
           "workers": [(f"k{tape.draw(nkeys, 'key')}", tape.choice(grid, "start"), tape.choice(grid, "hold"),
                        tape.choice([None, None, "now", "yield"], "again"), tape.draw(nobj, "obj") if nobj > 1 else 0) for _ in range(n)]}
    victim = tape.draw(n, "victim")
    at = tape.choice([0, 1, 2, 3, 4], "cancel.at")
    # contended key?
    keys = [(w[4], w[0]) for w in cfg["workers"]]
    J = 6
    agg = None
    from sim.tape import Tape
    base_vals = None
    for j in [None] + list(range(J + 1)):
        sub = Tape(replay=[]) if False else tape
        res = simulate_simple(_TapeView(tape), CFG, _scenario(cfg, None if j is None else victim, at, j or 0),
                              nontrivial=lambda w, o: bool(w.faults.get("task-cancel")) and keys.count(keys[victim]) >= 2 and
                              bool(w.probes.get("cancel-while-waiting") or w.probes.get("cancel-while-holding")),
                              sample=lambda w, o: {"workers": cfg["workers"], "victim": victim, "at": at, "j": j})
        if keys.count(keys[victim]) >= 2:
            res["probes"]["contended-key"] = res["probes"].get("contended-key", 0) + 1
        if agg is None:
            agg = res
            agg["evals"] = 1
            agg["nontrivial_shapes"] = set()
        else:
            agg["violations"] = agg["violations"] + res["violations"]
            for k in ("faults", "probes"):
                for kk, v in res[k].items():
                    agg[k][kk] = agg[k].get(kk, 0) + v
            agg["evals"] += 1
            agg["digest"] = (agg["digest"] or "") + ":" + (res["digest"] or "")
            agg["harness"] = agg["harness"] or res["harness"]
            agg["sim_time"] += res["sim_time"]
            agg["steps"] += res["steps"]
            if res["nontrivial"]:
                agg["nontrivial_shapes"].add(res["shape"])
                agg["nontrivial"] = True
                if "sample" not in agg or agg.get("sample", {}).get("config", {}).get("j") is None:
                    agg["sample"] = res.get("sample", agg.get("sample"))
            if res.get("trace_excerpt") and res["violations"]:
                agg["trace_excerpt"] = res["trace_excerpt"]
    agg["nontrivial_shapes"] = list(agg["nontrivial_shapes"])
    return agg


class _TapeView:
    """tape proxy so that sub-runs draw from the same tape (loop tie-breaks, salt)"""

    def __init__(self, tape):
        self._t = tape

    def __getattr__(self, k):
        return getattr(self._t, k)
