"""C03 — queued work never stalls and idleness is reported only when truly idle."""
from __future__ import annotations

from worlds.engine_common import simulate
from worlds.obs import delivery_windows, retry_windows

ID = "C03"
LEVEL = "exploration"
QUICK_RUNS = 4000
THOROUGH_SECONDS = 600
RULE_TEXT = ("Generated workflows with fan-out beyond capacity, retry policies with zero and positive delays, "
             "ctx.send_event followed by return None, external events racing step completion; oracle at simulator "
             "stable instants (stall) and at the publication of every WorkflowIdleEvent / UnhandledEvent(idle=true) "
             "(truthfulness). Non-trivial: >=1 queued event AND >=1 idle announcement; distinct = abstract trace shape.")
COMPONENTS = {"real": ["workflows.* engine"], "stub": ["llama_index_instrumentation"], "sim": ["loop, clock, executor"]}
ASSUMPTIONS = ["FIFO ready queue", "waiter timeouts are not counted as pending work (the statement does not list them)"]
EXPECTED_PROBES = ["queued", "idle-announced", "retry-delay-pending", "external-send"]
LEVEL_TEXT = ("Seeded exploration. Stall rule evaluated only at stable instants (ready queue empty, clock about to "
              "advance) using the engine's own published slot changes; idle rules use only observations with a "
              "smaller global sequence number than the idle publication.")
LEVEL_NOTE = "Trusted: simulator loop, recording adapter decorator, body enter/exit logging."

CFG = {"driver": "finish", "p_retry": 50, "p_fail": 35, "fan_max": 4, "retry_delays": [0, 1, 2, 5],
       "p_external": 40, "p_unhandled": 15, "p_wait": 20, "wait_timeouts": [None, None, 4, 10],
       # bodies that block the event loop for a while: wake-ups (retry delays, waiter timeouts) become overdue before the loop runs again
       "p_stall": 12, "stall_grid": [1, 2, 3, 6]}


def check(world, spec, outcome) -> None:
    recs = world.trace.recs
    workers = {s["name"]: s["workers"] for s in spec["steps"]}
    rwin = retry_windows(recs)
    dwin = delivery_windows(recs)
    open_slots: dict[str, set] = {}
    qlen: dict[str, int] = {}
    bodies: dict[str, set] = {}
    finished: dict[str, int] = {}   # per step: bodies that exited (not cancelled) and whose step_result tick is not processed yet
    n_idle = 0
    saw_q = False
    ended = False
    for seq, t, kind, f in recs:
        if kind == "publish":
            ev = f["ev"]
            if ev == "StepStateChanged":
                step, st = f["step"], f["state"]
                if st == "PREPARING":
                    qlen[step] = qlen.get(step, 0) + 1
                    saw_q = True
                elif st == "RUNNING":
                    open_slots.setdefault(step, set()).add(f["worker"])
                    if qlen.get(step, 0) > 0:
                        qlen[step] -= 1
                else:
                    open_slots.get(step, set()).discard(f["worker"])
            elif ev in ("StopEvent", "WorkflowFailedEvent", "WorkflowCancelledEvent", "WorkflowTimedOutEvent", "Stop1"):
                ended = True
            elif ev == "WorkflowIdleEvent" or (ev == "UnhandledEvent" and f.get("idle")):
                n_idle += 1
                via = ev
                running = sorted(s for s, v in open_slots.items() if v)
                if running:
                    world.violate("C03.idle-while-running", f"{ev} published while steps {running} hold RUNNING slots", seq, via=via)
                queued = sorted(s for s, v in qlen.items() if v)
                if queued:
                    world.violate("C03.idle-while-queued", f"{ev} published while steps {queued} have queued events", seq, via=via)
                rp = [(s, u, _t(recs, b) > _t(recs, a)) for a, b, s, u in rwin if a < seq < b]
                if rp:
                    # root-cause attribute: the recorded defect is that scheduled wake-ups (a retry waiting out a POSITIVE delay, i.e.
                    # one that runs at a later virtual instant) are invisible to the idle check; an announcement made while a retry that
                    # runs at this very instant is pending is a different thing
                    world.violate("C03.idle-while-retry-pending", f"{ev} published at t={t} while a retry of {rp[0][:2]} is pending ("
                                  f"{'it is waiting out a positive delay' if all(x[2] for x in rp) else 'zero delay: it runs at the instant of its failure'})", seq, via=via,
                                  positive_delay=all(x[2] for x in rp))
                dp = [u for a, b, u in dwin if a < seq < b]
                if dp:
                    world.violate("C03.idle-while-undelivered", f"{ev} published while delivered event uid={dp[0]} is not yet processed", seq, via=via)
        elif kind == "enter":
            bodies.setdefault(f["step"], set()).add(f["inv"])
        elif kind == "exit":
            bodies.get(f["step"], set()).discard(f["inv"])
            if f["exit"] != "cancelled":
                finished[f["step"]] = finished.get(f["step"], 0) + 1
        elif kind == "tick" and f["tick"] == "step_result":
            if finished.get(f["step"], 0) > 0:
                finished[f["step"]] -= 1
        elif kind == "stable" and not ended:
            for step, q in qlen.items():
                if q > 0 and len(open_slots.get(step, ())) < workers.get(step, 0):
                    world.violate("C03.stall", f"step {step} has {q} queued events but only {len(open_slots.get(step, ()))} "
                                  f"of {workers[step]} workers running", seq, how="free-slot")
                elif q > 0 and finished.get(step, 0) > 0 and len(open_slots.get(step, ())) - finished[step] < workers.get(step, 0):
                    # a slot that is still RUNNING on the record although its invocation has returned / raised / suspended and the
                    # loop has drained without processing that outcome is not running anything
                    world.violate("C03.stall", f"step {step} has {q} queued events while {finished[step]} of its {len(open_slots.get(step, ()))} RUNNING slots "
                                  f"belong to invocations that already finished and whose result was never processed", seq, how="slot-held-by-finished-invocation")
    # a retry the engine has scheduled must start once its delay is over: at quiescence (nothing can happen any more without new
    # input; retry delays are seconds, the quiescence gap is hundreds) of a run that has not ended, a failed attempt with neither a
    # re-delivery nor a failed run behind it is a retry that is due, has a free slot, and never starts
    if True:
        qseq = next((q for q, _, k, f in recs if k == "quiescent" and f.get("phase") == "pre-fin"), None)
        ended_before_q = qseq is not None and any(k == "publish" and f["ev"] in ("StopEvent", "WorkflowFailedEvent", "WorkflowCancelledEvent", "WorkflowTimedOutEvent", "Stop1")
                                                   for q, _, k, f in recs if q < qseq)
        if qseq is not None and not ended_before_q:
            pend: dict = {}
            for seq, t, kind, f in recs:
                if seq > qseq or kind != "tick":
                    continue
                if f["tick"] == "step_result" and any(r[0] == "failed" for r in f["res"]):
                    pend.setdefault((f["step"], str(f["uid"])), []).append((seq, t))
                elif f["tick"] == "add_event" and (f.get("attempts") or 0) >= 1 and f.get("target"):
                    k2 = (f["target"], str(f["uid"]))
                    if pend.get(k2):
                        pend[k2].pop(0)
            for (st, u), lst in pend.items():
                if lst:
                    world.violate("C03.stall", f"step {st} failed for input {u} at t={lst[0][1]} and a retry was scheduled, but at quiescence (t={_t(recs, qseq)}) it has still "
                                  f"not been re-delivered although the run goes on and the step has a free worker", lst[0][0], how="due-retry-never-started")
    if saw_q:
        world.probe("queued")
    if n_idle:
        world.probe("idle-announced")
    if any(b - a > 0 and _t(recs, b) > _t(recs, a) for a, b, s, u in rwin):
        world.probe("retry-delay-pending")
    world._nt = saw_q and n_idle > 0


def _t(recs, seq):
    return recs[seq - 1][1]


def run(tape):
    return simulate(tape, CFG, check, nontrivial=lambda w, s, o: w._nt)
