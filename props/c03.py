"""C03 — queued work never stalls and idleness is reported only when truly idle."""
from __future__ import annotations

from worlds.engine_common import simulate
from worlds.obs import delivery_windows, retry_windows

ID = "C03"
LEVEL = "exploration"
QUICK_RUNS = 4000
THOROUGH_SECONDS = 600
RULE_TEXT = ("Generated workflows with fan-out beyond capacity, retry policies with zero and positive delays, "
             "ctx.send_event followed by return None, external events racing step completion; oracle at simulator "
             "stable instants (stall) and at the publication of every WorkflowIdleEvent / UnhandledEvent(idle=true) "
             "(truthfulness). Non-trivial: >=1 queued event AND >=1 idle announcement; distinct = abstract trace shape.")
COMPONENTS = {"real": ["workflows.* engine"], "stub": ["llama_index_instrumentation"], "sim": ["loop, clock, executor"]}
ASSUMPTIONS = ["FIFO ready queue", "waiter timeouts are not counted as pending work (the statement does not list them)"]
EXPECTED_PROBES = ["queued", "idle-announced", "retry-delay-pending", "external-send"]
LEVEL_TEXT = ("Seeded exploration. Stall rule evaluated only at stable instants (ready queue empty, clock about to "
              "advance) using the engine's own published slot changes; idle rules use only observations with a "
              "smaller global sequence number than the idle publication.")
LEVEL_NOTE = "Trusted: simulator loop, recording adapter decorator, body enter/exit logging."

CFG = {"driver": "finish", "p_retry": 50, "p_fail": 35, "fan_max": 4, "retry_delays": [0, 1, 2, 5],
       "p_external": 40, "p_unhandled": 15, "p_wait": 20, "wait_timeouts": [None, None, 4, 10]}


def check(world, spec, outcome) -> None:
    recs = world.trace.recs
    workers = {s["name"]: s["workers"] for s in spec["steps"]}
    rwin = retry_windows(recs)
    dwin = delivery_windows(recs)
    open_slots: dict[str, set] = {}
    qlen: dict[str, int] = {}
    bodies: dict[str, set] = {}
    n_idle = 0
    saw_q = False
    ended = False
    for seq, t, kind, f in recs:
        if kind == "publish":
            ev = f["ev"]
            if ev == "StepStateChanged":
                step, st = f["step"], f["state"]
                if st == "PREPARING":
                    qlen[step] = qlen.get(step, 0) + 1
                    saw_q = True
                elif st == "RUNNING":
                    open_slots.setdefault(step, set()).add(f["worker"])
                    if qlen.get(step, 0) > 0:
                        qlen[step] -= 1
                else:
                    open_slots.get(step, set()).discard(f["worker"])
            elif ev in ("StopEvent", "WorkflowFailedEvent", "WorkflowCancelledEvent", "WorkflowTimedOutEvent", "Stop1"):
                ended = True
            elif ev == "WorkflowIdleEvent" or (ev == "UnhandledEvent" and f.get("idle")):
                n_idle += 1
                via = ev
                running = sorted(s for s, v in open_slots.items() if v)
                if running:
                    world.violate("C03.idle-while-running", f"{ev} published while steps {running} hold RUNNING slots", seq, via=via)
                queued = sorted(s for s, v in qlen.items() if v)
                if queued:
                    world.violate("C03.idle-while-queued", f"{ev} published while steps {queued} have queued events", seq, via=via)
                rp = [(s, u) for a, b, s, u in rwin if a < seq < b]
                if rp:
                    world.violate("C03.idle-while-retry-pending", f"{ev} published while a retry of {rp[0]} is waiting out its delay", seq, via=via)
                dp = [u for a, b, u in dwin if a < seq < b]
                if dp:
                    world.violate("C03.idle-while-undelivered", f"{ev} published while delivered event uid={dp[0]} is not yet processed", seq, via=via)
        elif kind == "enter":
            bodies.setdefault(f["step"], set()).add(f["inv"])
        elif kind == "exit":
            bodies.get(f["step"], set()).discard(f["inv"])
        elif kind == "stable" and not ended:
            for step, q in qlen.items():
                if q > 0 and len(open_slots.get(step, ())) < workers.get(step, 0):
                    world.violate("C03.stall", f"step {step} has {q} queued events but only {len(open_slots.get(step, ()))} "
                                  f"of {workers[step]} workers running", seq)
    if saw_q:
        world.probe("queued")
    if n_idle:
        world.probe("idle-announced")
    if any(b - a > 0 and _t(recs, b) > _t(recs, a) for a, b, s, u in rwin):
        world.probe("retry-delay-pending")
    world._nt = saw_q and n_idle > 0


def _t(recs, seq):
    return recs[seq - 1][1]


def run(tape):
    return simulate(tape, CFG, check, nontrivial=lambda w, s, o: w._nt)
