"""C13 — a server restart at any persisted point resumes without losing work."""
from __future__ import annotations

import asyncio
import json
import sqlite3 as real_sqlite3

from sim.sqlite_seam import SEAM
from sim.tape import Tape
from worlds import events as EV
from worlds import engine_common
from worlds.server import ServerWorld

ID = "C13"
LEVEL = "fault_enumeration"
QUICK_RUNS = 64
THOROUGH_SECONDS = 900
RULE_TEXT = ("Deterministic-result workflows (path ids, idempotent writes to the SQLite state store, fan-out, second stage, "
             "retries counted by the engine's attempt number) run through _WorkflowService on the full server stack with "
             "SqliteWorkflowStore. For each sampled program+schedule the uninterrupted run gives the reference result and its "
             "number n of persisted ticks; then the process is crashed right after the k-th committed append_tick (fence: every "
             "later database call of that incarnation raises, all its tasks are cancelled), a new incarnation is started on the "
             "same database (service.start -> PersistenceDecorator._on_server_start), run to quiescence, finished. k is "
             "ENUMERATED: quick = up to 8 values per program incl. 1, n and every tick right after a step_result; thorough = every "
             "k in 1..n. Each (program, k) is one evaluation. Non-trivial: the crash landed while >=1 step was in progress or >=1 "
             "step output was not yet re-queued; distinct = (program shape, kind of the k-th tick).")
COMPONENTS = {"real": ["server runtime stack incl. PersistenceDecorator._on_server_start/context_from_ticks/replay_ticks_stream, _WorkflowService, SqliteWorkflowStore, SqliteStateStore, engine"],
              "stub": ["llama_index_instrumentation"], "sim": ["loop, clocks, SQLite seam (crash fence at commit granularity), incarnations"]}
ASSUMPTIONS = ["process crash: only committed SQLite transactions survive; power loss / torn pages out of scope",
               "after the restart the driver sends the finishing event once the new incarnation is quiescent"]
EXPECTED_PROBES = ["program-with-waiter-timeout", "reference-cancelled", "crash-after-persisted-cancel", "crash-with-step-in-progress", "crash-right-after-step_result", "crash-after-last-tick", "restart-resumed-run"]
LEVEL_TEXT = ("Fault enumeration over crash points (every persisted tick of each sampled run in the thorough tier) on top of seeded "
              "sampling of programs and schedules; differential against the uninterrupted run.")
LEVEL_NOTE = "Trusted: simulator loop, crash fence of the SQLite seam (commit = unit of durability), determinism-by-construction of the programs."
EVIDENCE_EXTRA = {"enumerated_dimension": "crash after the k-th persisted tick, k sampled (quick) / all (thorough) per program"}
CHUNK = 4

CFG = {"allow_join": True, "driver": "finish", "grid": [0, 1, 1, 2, 3], "backend": "sqlite", "idle_timeout": 60.0, "quiesce_gap": 500.0, "max_steps": 80_000}


def gen(tape, cfg):
    from props import c12
    spec = c12.gen(tape, cfg)
    # no positive retry delays and no always-failing steps here: those interact with the separate known defects of C12/C14
    for s in spec["steps"]:
        if s.get("retry"):
            s["retry"] = dict(s["retry"], wait=("none",))
        s["scripts"] = {k: [(("failpath", a[1], min(max(a[2], 0), 1)) if a[0] == "failpath" else a) for a in sc] for k, sc in s["scripts"].items()}
        if s.get("retry") and any(a[0] == "failpath" and a[2] >= 1 for sc in s["scripts"].values() for a in sc):
            s["retry"] = dict(s["retry"], stop=("attempt", max(2, s["retry"]["stop"][1])))
        if not s.get("retry"):
            s["scripts"] = {k: [a for a in sc if a[0] != "failpath"] for k, sc in s["scripts"].items()}
    spec["steps"] = [s for s in spec["steps"] if s["role"] != "catch"]
    if tape.chance(25, 100, "c13.wait?"):
        # a step that waits for an answer nobody sends: its wait_for_event timeout fires, the step handles the TimeoutError and goes on
        # (restarts are only placed after the last waiter timeout has fired: timers pending at a restart are C14's subject)
        w0 = next(s for s in spec["steps"] if s["name"] == "w0")
        w0["scripts"] = {k: [a for a in sc if a[0] == "work"] + [("wait", "Resp0", True, tape.choice([1, 2], "c13.wait.t"), "w", False, "continue")]
                         + [a for a in sc if a[0] != "work"] for k, sc in w0["scripts"].items()}
        spec["waits"] = True
    return spec


def make_scenario(crash_k):
    async def scenario(world, spec):
        inc = world.new_incarnation()
        wf = inc.add_workflow("wf", spec)
        await inc.start()
        world.crash_event = asyncio.Event()
        tick_kinds = []
        world._tick_kinds = tick_kinds
        world.tick_hooks.append(lambda seq, run, tick: tick_kinds.append(type(tick).__name__ + (":" + tick.step_name if hasattr(tick, "step_name") and type(tick).__name__ == "TickStepResult" else "")))
        if crash_k is not None:
            SEAM.crash_plan = {"table": "ticks", "k": crash_k, "inc": 1}
        start = EV.Start0(uid=world.uid())
        st = inc.spawn(inc.service.start_workflow(wf, "h1", start_event=start))
        cancel_at = world.tape.choice([0, 1, 1, 2, 3], "cancel.at") if world.tape.chance(25, 100, "cancel-arm?") else None
        world._cancel_arm = cancel_at is not None
        if cancel_at is not None:
            # a user cancel accepted by the first incarnation: once its tick is persisted the run is over for every later restart
            async def canc():
                await asyncio.sleep(cancel_at)
                world.trace.log("cancel-request")
                world.fault("cancel-handler")
                try:
                    await inc.service.cancel_handler("h1")
                except BaseException as e:  # noqa: BLE001
                    world.trace.log("cancel-error", exc=type(e).__name__)
            inc.spawn(canc())
        ce = asyncio.ensure_future(world.crash_event.wait())
        q = world.loop.quiesce()
        await asyncio.wait([q, ce], return_when=asyncio.FIRST_COMPLETED)
        if not world.crash_event.is_set():
            # same as the reference: finishing event at quiescence; the crash point may lie in this last stretch
            r0 = _row(world)
            if r0 and r0[0] == "running":
                inc.spawn(inc.service.send_event("h1", EV.Fin(uid=world.uid())))
                q = world.loop.quiesce()
                await asyncio.wait([q, ce], return_when=asyncio.FIRST_COMPLETED)
        out = {"crashed": False}
        live = inc
        if world.crash_event.is_set():
            out["crashed"] = True
            out["open_at_crash"] = sorted(r["step"] for r in world.open_bodies.values())
            out["kth_tick"] = tick_kinds[crash_k - 1] if crash_k - 1 < len(tick_kinds) else "?"
            out["ticks_at_crash"] = len(tick_kinds)
            await world.kill(inc)
            world.open_bodies.clear()
            try:
                c_ = real_sqlite3.connect(world.tmp.db())
                r_ = c_.execute("SELECT idle_since FROM handlers WHERE handler_id='h1'").fetchone()
                c_.close()
                out["idle_marked_at_crash"] = bool(r_ and r_[0] is not None)
            except real_sqlite3.Error:
                out["idle_marked_at_crash"] = None
            inc2 = world.new_incarnation()
            inc2.add_workflow("wf", spec)
            await inc2.start()
            live = inc2
            await world.loop.quiesce()
            world.trace.log("quiescent", phase="after-restart")
        else:
            ce.cancel()
        st_row = _row(world)
        out["status_before_fin"] = st_row[0] if st_row else None
        if out["crashed"] and st_row and st_row[0] == "running":
            # a run that was (rightly or wrongly) marked idle is only reloaded on demand: wake it with an event nobody
            # handles, and let it finish whatever the restart re-created before the finishing event is sent
            try:
                await live.call(live.service.send_event("h1", EV.X0(uid=world.uid())))
            except BaseException as e:  # noqa: BLE001
                world.trace.log("poke-error", exc=type(e).__name__, msg=str(e)[:100])
            await world.loop.quiesce()
            world.trace.log("quiescent", phase="after-poke")
            st_row = _row(world)
        if st_row and st_row[0] == "running":
            try:
                await live.call(live.service.send_event("h1", EV.Fin(uid=world.uid())))
            except BaseException as e:  # noqa: BLE001
                world.trace.log("send-error", exc=type(e).__name__, msg=str(e)[:100])
                out["send_error"] = f"{type(e).__name__}: {e}"
            await world.loop.quiesce()
        out["final"] = _row(world)
        out["cancel_arm"] = bool(world._cancel_arm)
        out["n_ticks"] = SEAM.commits.get("ticks", 0)
        out["tick_kinds"] = list(tick_kinds)
        out["waits"] = bool(spec.get("waits"))
        world.trace.log("quiescent", phase="end")
        return out
    return scenario


def _row(world):
    try:
        conn = real_sqlite3.connect(world.tmp.db())
        try:
            row = conn.execute("SELECT status, error, result FROM handlers WHERE handler_id='h1'").fetchone()
        finally:
            conn.close()
    except real_sqlite3.Error:
        return None
    if not row:
        return None
    res = None
    if row[2]:
        try:
            res = json.loads(row[2])
        except Exception:  # noqa: BLE001
            res = row[2]
    return (row[0], row[1], json.dumps(res, sort_keys=True) if res is not None else None)


_LAST: dict = {}


def _sim(values, crash_k, explore_tape=None):
    tape = explore_tape if explore_tape is not None else Tape(replay=list(values))
    res = engine_common.simulate(tape, CFG, lambda w, s, o: _LAST.__setitem__("out", (o, [dict(r[3], kind=r[2], seq=r[0]) for r in w.trace.recs if r[2] in ("enter", "reload-error", "emit", "tick", "crash", "runner-start")])),
                                 gen=gen, scenario=make_scenario(crash_k), world_cls=ServerWorld)
    return res, _LAST.pop("out", (None, None))


def run(tape, thorough=False):
    import os
    thorough = thorough or os.environ.get("VERIF_TIER") == "thorough"
    res0, (ref, ref_recs) = _sim(None, None, explore_tape=tape)
    values = list(tape.values)
    agg = res0
    agg["evals"] = 1
    agg["nontrivial_shapes"] = set()
    cancelled_ref = bool(ref and ref.get("cancel_arm") and ref.get("final") and ref["final"][0] == "cancelled" and "TickCancelRun" in ref["tick_kinds"])
    if res0["harness"] or not ref or not ref.get("final") or (ref["final"][0] != "completed" and not cancelled_ref):
        agg["nontrivial_shapes"] = []
        errs = sorted({e["exc"] + ": " + e["msg"] for e in (ref_recs or []) if e["kind"] == "reload-error"})
        if not res0["harness"] and ref and errs and not ref.get("cancel_arm"):
            # not even the UNINTERRUPTED run completes: it was released for idleness and its persisted tick log could not be replayed
            # when the finishing event arrived
            agg["probes"]["reference-not-completed"] = agg["probes"].get("reference-not-completed", 0) + 1
            agg["violations"] = agg["violations"] + [{"rule": "C13.stuck", "cause": {"reference_run": True, "reload_error": errs[0]}, "seq": 0,
                                                     "msg": f"the uninterrupted run ended {ref.get('final')}: reloading it from its persisted ticks (after an idle release) raised {errs[0]}"}]
        return agg
    if cancelled_ref:
        agg["probes"]["reference-cancelled"] = agg["probes"].get("reference-cancelled", 0) + 1
    n = ref["n_ticks"]
    kinds = ref["tick_kinds"]
    if cancelled_ref:
        # only restarts after the cancel was persisted are comparable (nobody re-issues the cancel after a restart)
        ci = kinds.index("TickCancelRun") + 1
        ks = list(range(ci, n + 1)) if thorough else sorted({ci, min(ci + 1, n), n})
    elif thorough:
        ks = list(range(1, n + 1))
    else:
        after_result = [i + 1 for i, k in enumerate(kinds) if k.startswith("TickStepResult")]
        pick = {1, n}
        # tape-free deterministic sample
        for j, k in enumerate(after_result):
            if len(pick) < 6:
                pick.add(k)
        step = max(1, n // 3)
        pick.update(range(step, n, step))
        ks = sorted(pick)[:8]
    if ref.get("waits") and not cancelled_ref:
        agg["probes"]["program-with-waiter-timeout"] = agg["probes"].get("program-with-waiter-timeout", 0) + 1
        # restarts are placed after the last waiter timeout was persisted (as far as the persisted log shows one) and reach to the end
        to_idx = [i for i, k in enumerate(kinds) if k.startswith("TickWaiterTimeout")]
        last_to = (max(to_idx) + 1) if to_idx else 1
        late = {k for k in range(n - 5, n + 1) if k >= 1}
        ks = sorted(k for k in (set(ks) | late | {last_to, min(last_to + 1, n), min(last_to + 2, n)}) if k >= last_to)
        if not thorough:
            ks = ks[:3] + ks[-7:] if len(ks) > 10 else ks
    for k in ks:
        res, (out, enters) = _sim(values, k)
        agg["evals"] += 1
        agg["steps"] += res.get("steps", 0)
        agg["sim_time"] += res.get("sim_time", 0.0)
        for kk in ("faults", "probes"):
            for a, b in res.get(kk, {}).items():
                agg[kk][a] = agg[kk].get(a, 0) + b
        agg["digest"] = (agg.get("digest") or "") + ":" + (res.get("digest") or "")
        if res["harness"]:
            agg["harness"] = agg["harness"] or res["harness"]
            continue
        if not out or not out.get("crashed"):
            continue
        kth = out.get("kth_tick", "?")
        kind = kth.split(":")[0]
        cause = {"after_tick": kind}
        vio = []
        final = out.get("final")
        if out["open_at_crash"]:
            agg["probes"]["crash-with-step-in-progress"] = agg["probes"].get("crash-with-step-in-progress", 0) + 1
        if kind == "TickStepResult":
            agg["probes"]["crash-right-after-step_result"] = agg["probes"].get("crash-right-after-step_result", 0) + 1
        if k == n:
            agg["probes"]["crash-after-last-tick"] = agg["probes"].get("crash-after-last-tick", 0) + 1
        reload_errors = sorted({e["exc"] + ": " + e["msg"] for e in (enters or []) if e["kind"] == "reload-error"})
        # outputs of steps whose completion was persisted before the crash but which were not yet processed (still in the
        # mailbox / tick buffer): the root of the known lost-output finding
        crash_seq = next((e["seq"] for e in (enters or []) if e["kind"] == "crash"), None)
        done_steps = {(e["step"], str(e["uid"])) for e in (enters or []) if e["kind"] == "tick" and e.get("tick") == "step_result" and crash_seq and e["seq"] < crash_seq}
        processed = {str(e["uid"]) for e in (enters or []) if e["kind"] == "tick" and e.get("tick") == "add_event" and crash_seq and e["seq"] < crash_seq}
        unprocessed = [e["uid"] for e in (enters or []) if e["kind"] == "emit" and e.get("inc") == 1 and e.get("uid") is not None and e.get("via") in ("send", "return")
                       and (e["by"], str(e["parent"])) in done_steps and str(e["uid"]) not in processed]
        # ... likewise a retry that the last persisted (failed) step_result tick scheduled but whose re-delivery tick was not yet persisted
        failed_ticks = [e for e in (enters or []) if e["kind"] == "tick" and e.get("tick") == "step_result" and crash_seq and e["seq"] < crash_seq
                        and any(r[0] == "failed" for r in e["res"])]
        redelivered = {(e.get("target"), str(e["uid"])) for e in (enters or []) if e["kind"] == "tick" and e.get("tick") == "add_event" and (e.get("attempts") or 0) >= 1
                       and crash_seq and e["seq"] < crash_seq}
        pending_retry = [e for e in failed_ticks if (e["step"], str(e["uid"])) not in redelivered]
        cause = {"unpersisted_followup_work": bool(unprocessed or pending_retry), "reload_error": reload_errors[0] if reload_errors else None}
        if reload_errors:
            # root-cause attribute: WHICH replay of the tick log failed. The recorded defect needs a log that already contains the ticks
            # of a resumed incarnation (the failing reload is a later one); a log that cannot even be replayed by the restart itself
            # is something else
            first_err = min(e["seq"] for e in (enters or []) if e["kind"] == "reload-error")
            resumed_before = any(e["kind"] == "runner-start" and e.get("inc", 1) >= 2 and e["seq"] < first_err for e in (enters or []))
            cause["failed_reload"] = "later" if resumed_before else "first-after-crash"
        enters = [e for e in (enters or []) if e["kind"] == "enter"]
        reran = [e for e in (enters or []) if e.get("inc") == 2]
        if reran:
            agg["probes"]["restart-resumed-run"] = agg["probes"].get("restart-resumed-run", 0) + 1
        if cancelled_ref:
            agg["probes"]["crash-after-persisted-cancel"] = agg["probes"].get("crash-after-persisted-cancel", 0) + 1
            if final is None or final[0] != "cancelled":
                vio.append(("C13.finalize", f"the persisted ticks contain the user's cancel (crash after tick #{k}, {kth}), but after restart the handler is {final}",
                            {"how": "cancel-not-finalized", "reran": bool(reran), "idle_marked_at_crash": out.get("idle_marked_at_crash")}))
            elif reran:
                vio.append(("C13.finalize", f"persisted cancel, but steps were executed again after restart: {[e['step'] for e in reran]}", {"how": "cancelled-re-run"}))
            for rule, msg, c in vio:
                agg["violations"] = agg["violations"] + [{"rule": rule, "cause": c, "seq": 0, "msg": msg}]
            if vio and res.get("trace_excerpt"):
                agg["trace_excerpt"] = res["trace_excerpt"]
            continue
        if k == n and kinds and kinds[-1].startswith("TickStepResult:zfin"):
            # persisted ticks already end the run: must be finalized, not re-run
            if final is None or final[0] != "completed":
                vio.append(("C13.finalize", f"persisted ticks end the run, but after restart the handler is {final}", {"how": "not-finalized"}))
            elif reran:
                vio.append(("C13.finalize", f"persisted ticks end the run, but steps were executed again after restart: {[e['step'] for e in reran]}", {"how": "re-run"}))
        if final is None or final[0] == "running":
            vio.append(("C13.stuck", f"crash after tick #{k} ({kth}); after restart and the finishing event the handler is {final} "
                        f"(status before finishing event: {out.get('status_before_fin')}, send error: {out.get('send_error')})", cause))
        elif final != ref["final"]:
            missing = None
            try:
                a = set(json.loads(ref["final"][2])["value"]["result"])
                b = set(json.loads(final[2])["value"]["result"]) if final[2] else set()
                missing = sorted(a - b)
            except Exception:  # noqa: BLE001
                pass
            rule = "C13.lost-output" if missing else "C13.result"
            vio.append((rule, f"crash after tick #{k} ({kth}): resumed run ended {final[0]} with {final[2]}, uninterrupted run {ref['final'][2]}; "
                        f"missing work {missing}", cause))
        for rule, msg, c in vio:
            agg["violations"] = agg["violations"] + [{"rule": rule, "cause": c, "seq": 0, "msg": msg}]
        if vio and res.get("trace_excerpt"):
            agg["trace_excerpt"] = res["trace_excerpt"]
        if out["open_at_crash"] or kind == "TickStepResult":
            agg["nontrivial_shapes"].add(f"{res.get('shape')}:{kind}")
            agg["nontrivial"] = True
            if "sample" not in agg or not agg["sample"]:
                agg["sample"] = {"program": "see C12 generator", "crash_after_tick": k, "kth_tick": kth, "open_bodies_at_crash": out["open_at_crash"],
                                 "reference": ref["final"], "after_restart": final}
    agg["nontrivial_shapes"] = sorted(agg["nontrivial_shapes"])
    return agg
