"""Which properties are claimed, which are not applicable (and why)."""

DEFAULT_TECHNIQUE = "deterministic simulation with fault injection (seeded schedule/fault search, trace oracles)"

SETUP_CMD = ("/venv/bin/python -c 'import hypothesis, jsonschema' 2>/dev/null || "
             "/venv/bin/pip install -q --no-index --find-links /opt/veriftools/wheels hypothesis jsonschema; "
             "cd /verif && /venv/bin/python tools/selftest.py determinism --seeds 6")

NOTES = ("All checks: /venv/bin/python run_check.py <ID> --tier quick|thorough. Exit 0 held, 1 violation "
         "(VIOLATION line + replay file under /verif/replays), 2 harness error. Repo code is imported from "
         "VERIF_REPO (default /repo) working tree via sys.path; nothing is installed or cached.")

CLAIMED = ["C01", "C02", "C03", "C04", "C05", "C06", "C08", "C09", "C10", "C11", "C12", "C13", "C14", "C15", "C16", "C17", "C19", "C20", "C21", "C22", "C24", "C25", "C26", "C27", "C28", "C29", "C30", "C31", "C35", "C36", "C37"]

_PURE = "pure function of its input: no schedule, clock, fault, I/O ordering or history to simulate (DESIGN §5)"
_PENDING = "check not built yet in this session (planned, see DESIGN §4); not claimed until its check exists"

NOT_APPLICABLE = {
    "C07": "retry combinator algebra/bounds: " + _PURE + "; the runtime's use of the policies is covered by C05/C06",
    "C18": "event/tick serialization round trip: " + _PURE,
    "C23": "graph validation is a pure decision procedure over step configs: " + _PURE,
    "C32": "deployment-id derivation: " + _PURE + "; also kubernetes is not importable here",
    "C33": "backup archive round trip: " + _PURE + "; cryptography is not importable here",
    "C34": "version conversion/classification in src/dev_cli: " + _PURE,
}
for _p in ["C02", "C03", "C04", "C05", "C06", "C08", "C09", "C10", "C11", "C12", "C13", "C14", "C15", "C16",
           "C17", "C19", "C20", "C21", "C22", "C24", "C25", "C26", "C27", "C28", "C29", "C30", "C31", "C35",
           "C36", "C37"]:
    if _p not in CLAIMED:
        NOT_APPLICABLE[_p] = _PENDING
