"""C17 — the client's auto-reconnecting event stream delivers each event once."""
from __future__ import annotations

import asyncio

from worlds import events as EV
from worlds import engine_common
from worlds.engine import gen_spec
from worlds.net import CUT_WHERE, ConnPlan, NetWorld, T

ID = "C17"
LEVEL = "exploration"
QUICK_RUNS = 1500
THOROUGH_SECONDS = 600
RULE_TEXT = ("The real WorkflowClient.get_workflow_events reads from the real _WorkflowAPI._stream_events over a simulated wire. "
             "Leg A (85%): events are appended to the store (memory / SQLite, tape-chosen) on a millisecond grid while 1-2 consumers "
             "with tape-chosen numeric cursors and max_reconnect_attempts 0..3 read; per connection the tape decides connect "
             "failures (ConnectError), read fragmentation (whole frames / one split / byte-wise around newlines and multi-byte "
             "characters), latency and ONE cut (ReadError / RemoteProtocolError) at a tape-chosen frame and position class "
             "(frame start, inside `id:`, after the id line, early/late inside `data:`, after the data line, frame end); payload "
             "strings include line-separator-like characters. Leg B (15%): a generated workflow is started through "
             "client.run_workflow_nowait and answered through client.send_event; consumers read its real event stream. "
             "Oracle against the stored log: the yielded events are exactly the log suffix after the cursor up to the first "
             "terminal event, once each, in order; last_sequence equals the stored sequence of the event just yielded; a "
             "ConnectionError is legitimate only after more than max_reconnect_attempts consecutive failed connections; "
             "completeness is judged after the last injected fault (bounded liveness). "
             "Non-trivial: a connection was cut or refused and the consumer still had events to receive; distinct = abstract trace shape.")
COMPONENTS = {"real": ["llama_agents.client.WorkflowClient.get_workflow_events / EventStream, httpx request/response/line decoding",
                       "_WorkflowAPI._stream_events.format_stream, _resolve_event_stream, _run_workflow_nowait, _post_event",
                       "_WorkflowService, stores, server runtime stack (leg B)"],
              "stub": ["starlette (routing table, Request/Response objects)", "uvicorn/h11/httpcore: no HTTP/1.1 byte framing, the wire carries body bytes",
                       "llama_index_instrumentation"],
              "sim": ["loop, clock, SimTransport (connect faults, fragmentation, latency, cuts), appenders, consumers"]}
ASSUMPTIONS = ["a broken connection surfaces as httpx.ConnectError / ReadError / RemoteProtocolError (what httpcore raises); a clean EOF in "
               "the middle of a stream is indistinguishable from the end of the stream and is not injected",
               "max_reconnect_attempts counts consecutive failures since the last successful response (as documented: 'reconnect attempts on connection drop')"]
EXPECTED_PROBES = ["cut-with-events-outstanding", "cut-after-data-line", "cut-inside-frame", "connect-fault-then-success", "budget-exceeded",
                   "reconnect-204", "heartbeat-seen", "two-consumers", "legB-run"]
LEVEL_TEXT = "Seeded exploration of cut positions, fragmentations, connect failures and append/consume interleavings against the stored log."
LEVEL_NOTE = "Trusted: simulator loop/clock, the wire model (body bytes, exceptions as httpcore raises them), starlette stub."

POLL = 64 * T
CFG_A = {"quiesce_gap": 30.0, "poll_interval": POLL, "backends": ["memory", "sqlite"], "max_steps": 200_000}
CFG_B = {"driver": "finish", "p_stream": 80, "p_retry": 10, "p_fail": 10, "fan_max": 2, "backends": ["memory", "sqlite"], "idle_timeout": 600.0,
         "p_ask": 30, "poll_interval": POLL, "max_steps": 300_000}
PAYLOADS = ["", "x", "héllo 世界", "a\nb", "tab\tq\"uote\\", "data: {\"fake\": 1}", "id: 99", "line sep", "nel\u0085x", "p s", "cr\rlf\r\n", "\x0b\x0c\x1c"]


def _planner(world, who: str, m: int, n_events: int):
    """fault plan for the connections of one consumer: decided from the tape when each connection opens"""
    tape = world.tape
    budget = {"left": tape.rng_int(0, 5, who + ".faults"), "consec": 0}
    exceed = tape.chance(12, 100, who + ".exceed")
    intensity = tape.choice([20, 50, 80], who + ".intensity")

    def plan(conn, method, path, query):
        p = ConnPlan()
        if method != "GET" or not path.startswith("/events/"):
            return p
        p.frag = tape.draw(3, "frag")
        p.latency = tape.choice([0, 0, T, 4 * T], "lat")
        if budget["left"] <= 0:
            return p
        if not tape.chance(intensity, 100, "fault?"):
            budget["consec"] = 0
            return p
        # keep consecutive failures within the reconnect limit unless this consumer is meant to exceed it
        if tape.chance(35, 100, "connect-fault?"):
            if budget["consec"] + 1 > m and not exceed:
                budget["consec"] = 0
                return p
            p.connect_fault = "ConnectError"
            budget["consec"] += 1
            budget["left"] -= 1
            return p
        if 1 > m and not exceed:
            return p
        p.cut_chunk = tape.draw(max(1, min(3, n_events)), "cut.chunk")
        p.cut_where = tape.choice(CUT_WHERE, "cut.where")
        p.cut_exc = tape.choice(["ReadError", "RemoteProtocolError"], "cut.exc")
        budget["consec"] = 1
        budget["left"] -= 1
        return p
    return plan


def _budget_exceeded(tr_log, m: int) -> bool:
    fails = 0
    for c in tr_log:
        if not c["path"].startswith("/events/"):
            continue
        if c["outcome"] == "connect-fault":
            fails += 1
        else:
            fails = 1 if c["outcome"] == "cut" else 0
        if fails > m:
            return True
    return False


async def _consume(world, client, tr, who, handler_id, cursor, m, internal, start, slow, res):
    if start:
        await asyncio.sleep(start)
    res.update({"got": [], "ended": False, "error": None, "last_seq_final": None, "started": True})
    stream = client.get_workflow_events(handler_id, include_internal_events=internal, after_sequence=cursor, max_reconnect_attempts=m)
    res["stream"] = stream
    try:
        async for ev in stream:
            ls = stream.last_sequence
            res["got"].append((ls, ev.type, (ev.value or {}).get("uid")))
            world.trace.log("yield", who=who, seq=ls, ev=ev.type, uid=(ev.value or {}).get("uid"))
            if slow:
                await asyncio.sleep(slow)
        res["ended"] = True
        world.trace.log("stream-end", who=who)
    except asyncio.CancelledError:
        raise
    except BaseException as e:  # noqa: BLE001
        res["error"] = e
        world.trace.log("stream-error", who=who, exc=type(e).__name__, msg=str(e)[:80])
    res["last_seq_final"] = stream.last_sequence


def _judge(world, who, cursor, m, internal, res, tr, log, leg):
    """log: [(seq, type, uid, is_internal, is_terminal)] of the run as stored at the end"""
    if not res.get("started"):
        return
    vis = [(s, t, u, term) for s, t, u, intl, term in log if s > cursor and (internal or not intl)]
    ft = next((k for k, x in enumerate(vis) if x[3]), None)
    want = [(s, t, u) for s, t, u, _ in (vis if ft is None else vis[:ft + 1])]
    got = res["got"]
    exceeded = _budget_exceeded(tr.log, m)
    cuts = [c for c in tr.log if c["outcome"] in ("cut", "connect-fault")]
    cause = {"leg": leg}
    if exceeded:
        world.probe("budget-exceeded")
    if any(c.get("status") == 204 for c in tr.log[1:]):
        world.probe("reconnect-204")
    seqs = [g[0] for g in got]
    idents = [(g[1], g[2]) for g in got if g[2] is not None]
    err = res["error"]
    if err is not None and not isinstance(err, ConnectionError):
        # root-cause attribute: what is special about the event the stream failed on (the next one it should have yielded)
        nxt = want[len(got)] if len(got) < len(want) else None
        pl = world._payloads.get(nxt[0], "") if nxt is not None and hasattr(world, "_payloads") else ""
        special = "unicode-line-separator-in-payload" if any(ch in pl for ch in "\u2028\u2029\x85") else "plain"
        world.violate("C17.stream-error", f"{who}(after={cursor}, m={m}): stream raised {type(err).__name__}: {str(err)[:120]} "
                      f"(next event #{nxt[0] if nxt else None}, payload {pl!r})", exc=type(err).__name__, next_event=special, **cause)
        return
    if err is not None and not exceeded:
        world.violate("C17.gave-up-early", f"{who}(after={cursor}, m={m}): ConnectionError although consecutive failures never exceeded the limit; "
                      f"connections {[(c['outcome']) for c in tr.log]}", **cause)
    # what was yielded must be a duplicate-free, ordered prefix of `want` (the whole of it unless the consumer legitimately gave up)
    if len(set(seqs)) != len(seqs) or len(set(idents)) != len(idents):
        world.violate("C17.duplicate", f"{who}(after={cursor}): yielded {got}; expected {want}", **cause)
    elif seqs != sorted(seqs):
        world.violate("C17.order", f"{who}(after={cursor}): yielded {got}; expected {want}", **cause)
    elif [(g[1], g[2]) for g in got] != [(x[1], x[2]) for x in want[:len(got)]]:
        world.violate("C17.missing", f"{who}(after={cursor}): yielded {got} is not a prefix of {want} (connections {[(c['outcome']) for c in tr.log]})",
                      how="gap" if len(got) <= len(want) else "extra", **cause)
    elif seqs != [x[0] for x in want[:len(got)]]:
        k = next(i for i in range(len(got)) if seqs[i] != want[i][0])
        world.violate("C17.last-sequence", f"{who}(after={cursor}): last_sequence={seqs[k]!r} after yielding stored event #{want[k][0]} {want[k][1:]}", **cause)
    elif err is None and len(got) < len(want):
        world.violate("C17.missing", f"{who}(after={cursor}): only {len(got)} of {len(want)} events after the last fault: got {got}, expected {want} "
                      f"(ended={res['ended']}, connections {[(c['outcome']) for c in tr.log]})", how="ended-short" if res["ended"] else "stalled", **cause)
    elif err is None and res["ended"] and ft is None and want:
        pass  # ended without a terminal event in view: only possible through 204 (cursor at/after terminal) -> want would be empty
    if res["last_seq_final"] is not None and got and res["last_seq_final"] != got[-1][0]:
        world.violate("C17.last-sequence", f"{who}: last_sequence={res['last_seq_final']!r} after the stream finished, last yielded #{got[-1][0]}", **cause)
    if not got and res["last_seq_final"] is not None and res["last_seq_final"] != cursor:
        world.violate("C17.last-sequence", f"{who}: last_sequence={res['last_seq_final']!r} although nothing was yielded (cursor {cursor})", **cause)
    # reach
    for c in tr.log:
        if c["outcome"] in ("cut", "connect-fault") and len(want) > 0:
            world._nt = True
            world.probe("cut-with-events-outstanding")
            break


def run(tape):
    if tape.draw(100, "leg") < 15:
        return _leg_b(tape)
    return _leg_a(tape)


def _leg_a(tape):
    n = tape.rng_int(1, 7, "n")
    has_term = tape.chance(85, 100, "has-term")
    gaps = [0, 0, T, 8 * T, POLL - T, POLL, POLL + T]
    plan = [{"i": i, "gap": tape.choice(gaps, "gap"), "term": has_term and i == n - 1, "payload": tape.choice(PAYLOADS, "payload") if tape.chance(40, 100, "pl?") else "",
             "internal": tape.chance(15, 100, "internal")} for i in range(n)]
    heartbeat = tape.choice([None, None, 4 * T, POLL], "heartbeat")
    n_cons = tape.rng_int(1, 2, "consumers")
    cons = [{"who": f"c{k}", "cursor": tape.rng_int(-1, n - 1, "cursor"), "m": tape.rng_int(0, 3, "m"), "internal": tape.chance(30, 100, "incl"),
             "start": tape.choice(gaps + [3 * POLL], "start") * tape.rng_int(0, 2, "start.mul"), "slow": tape.choice([0, 0, T, POLL], "slow")} for k in range(n_cons)]

    async def scenario(world):
        from llama_agents.client.protocol.serializable_events import EventEnvelopeWithMetadata
        from llama_agents.server._store.abstract_workflow_store import PersistentHandler
        from workflows.events import StepStateChanged, StepState, StopEvent
        world._nt = False
        inc = world.new_incarnation()
        await inc.start()
        api = world.make_api(inc, sse_heartbeat_interval=heartbeat)
        await inc.call(inc.store.update(PersistentHandler(handler_id="h1", workflow_name="wf", status="running", run_id="r1")))
        results = []
        tasks = []
        for c in cons:
            client, tr, hc = world.make_client(inc, api, _planner(world, c["who"], c["m"], n))
            res = {"tr": tr}
            results.append(res)
            tasks.append(asyncio.ensure_future(_consume(world, client, tr, c["who"], "h1", c["cursor"], c["m"], c["internal"], c["start"], c["slow"], res)))
        if n_cons > 1:
            world.probe("two-consumers")

        async def appender():
            for p in plan:
                if p["gap"]:
                    await asyncio.sleep(p["gap"])
                if p["term"]:
                    ev = EV.Stop1(uid=p["i"], payload=p["payload"])
                elif p["internal"]:
                    ev = StepStateChanged(name="s", step_state=StepState.RUNNING, worker_id="0", input_event_name="E0")
                else:
                    ev = EV.E0(uid=p["i"], src=p["payload"])
                world.trace.log("append", i=p["i"], term=p["term"], internal=p["internal"])
                await inc.store.append_event("r1", EventEnvelopeWithMetadata.from_event(ev))
        await inc.call(appender())
        # faults stop: every planner has a finite fault budget; give the streams time to catch up (polling + heartbeats never quiesce)
        for _ in range(40):
            await asyncio.sleep(2 * POLL)
            if all(t.done() for t in tasks):
                break
        await asyncio.sleep(8 * POLL)
        for t in tasks:
            t.cancel()
        await asyncio.gather(*tasks, return_exceptions=True)
        for r in results:
            s = r.get("stream")
            if s is not None:
                await s.aclose()
        stored = await inc.call(inc.store.query_events("r1"))
        from workflows.events import InternalDispatchEvent
        log = []
        for e in stored:
            types = (e.event.types or []) + [e.event.type]
            log.append((e.sequence, e.event.type, (e.event.value or {}).get("uid"), InternalDispatchEvent.__name__ in types, "StopEvent" in types))
        world._payloads = {e.sequence: str((e.event.value or {}).get("src") or (e.event.value or {}).get("payload") or "") for e in stored}
        for c, r in zip(cons, results):
            _judge(world, c["who"], c["cursor"], c["m"], c["internal"], r, r["tr"], log, "A")
            _reach(world, r["tr"])
        for hc in world.http_clients:
            await hc.aclose()
        return None
    return _simulate_a(tape, scenario, plan, cons, heartbeat)


def _reach(world, tr):
    for c in tr.log:
        if c["outcome"] == "connect-fault":
            nxt = [d for d in tr.log if d["conn"] > c["conn"] and d["outcome"] != "connect-fault"]
            if nxt:
                world.probe("connect-fault-then-success")
    for _, _, k, f in world.trace.recs:
        if k == "net-cut":
            if f["where"] == "after-data-line":
                world.probe("cut-after-data-line")
            elif f["where"] in ("in-id", "in-data-early", "in-data-late", "after-id-line"):
                world.probe("cut-inside-frame")


def _simulate_a(tape, scenario, plan, cons, heartbeat):
    from sim.loop import SimCap, SimDeadlock
    world = NetWorld(tape, CFG_A)
    harness = None
    try:
        try:
            world.loop.run_sim(scenario(world))
        except SimCap as e:
            harness = f"cap: {e}"
        except SimDeadlock as e:
            harness = f"deadlock: {e}"
        import os
        res = {"violations": world.violations, "harness": harness, "nontrivial": bool(getattr(world, "_nt", False)) and harness is None,
               "shape": world.trace.shape(("who", "where", "fault", "status", "exc")),
               "faults": dict(world.faults), "probes": dict(world.probes), "sim_time": world.clock.t, "steps": world.loop.steps,
               "digest": world.trace.digest(), "states": list(world.states), "evals": 1}
        want = bool(os.environ.get("VERIF_WANT_TRACE"))
        if res["nontrivial"] or world.violations or want:
            res["sample"] = {"config": {"leg": "A", "backend": world.backend, "plan": plan, "consumers": cons, "heartbeat": heartbeat},
                             "trace_excerpt": world.trace.excerpt(40)}
        if world.violations or want:
            res["trace_excerpt"] = world.trace.excerpt(400)
        return res
    finally:
        world.close()


def _leg_b(tape):
    n_cons = tape.rng_int(1, 2, "consumers")
    cons = [{"who": f"c{k}", "cursor": tape.choice([-1, -1, 0, 2, 5], "cursor"), "m": tape.rng_int(1, 3, "m"), "internal": tape.chance(50, 100, "incl"),
             "start": tape.choice([0, T, POLL], "start"), "slow": tape.choice([0, 0, T], "slow")} for k in range(n_cons)]

    async def scenario(world, spec):
        world._nt = False
        world.probe("legB-run")
        inc = world.new_incarnation()
        inc.add_workflow("wf", spec)
        await inc.start()
        api = world.make_api(inc, sse_heartbeat_interval=tape.choice([None, POLL], "heartbeat"))
        ctl, ctl_tr, _ = world.make_client(inc, api, lambda *a: ConnPlan())
        hd = await ctl.run_workflow_nowait("wf", start_event=EV.Start0(uid=world.uid()))
        results, tasks = [], []
        for c in cons:
            client, tr, hc = world.make_client(inc, api, _planner(world, c["who"], c["m"], 4))
            res = {"tr": tr}
            results.append(res)
            tasks.append(asyncio.ensure_future(_consume(world, client, tr, c["who"], hd.handler_id, c["cursor"], c["m"], c["internal"], c["start"], c["slow"], res)))
        for _ in range(6):
            await asyncio.sleep(4 * POLL)
        try:
            await ctl.send_event(hd.handler_id, EV.Fin(uid=world.uid()))
        except BaseException as e:  # noqa: BLE001
            world.trace.log("fin-rejected", exc=type(e).__name__)
        for _ in range(60):
            await asyncio.sleep(2 * POLL)
            if all(t.done() for t in tasks):
                break
        await asyncio.sleep(8 * POLL)
        for t in tasks:
            t.cancel()
        await asyncio.gather(*tasks, return_exceptions=True)
        for r in results:
            s = r.get("stream")
            if s is not None:
                await s.aclose()
        stored = await inc.call(inc.store.query_events(hd.run_id))
        from workflows.events import InternalDispatchEvent
        log = []
        for e in stored:
            types = (e.event.types or []) + [e.event.type]
            log.append((e.sequence, e.event.type, (e.event.value or {}).get("uid"), InternalDispatchEvent.__name__ in types, "StopEvent" in types))
        world._judge_args = (cons, results, log)
        for hc in world.http_clients:
            await hc.aclose()
        return {}

    def check(world, spec, outcome):
        cons_, results, log = world._judge_args
        for c, r in zip(cons_, results):
            _judge(world, c["who"], c["cursor"], c["m"], c["internal"], r, r["tr"], log, "B")
            _reach(world, r["tr"])
    return engine_common.simulate(tape, CFG_B, check, gen=gen_spec, scenario=scenario, nontrivial=lambda w, s, o: bool(w._nt), world_cls=NetWorld)
