"""C15 — the server's handler record always reflects the run outcome."""
from __future__ import annotations

import asyncio
import sqlite3 as real_sqlite3

from sim.sqlite_seam import SEAM
from worlds import events as EV
from worlds.engine import gen_spec
from worlds.engine_common import simulate
from worlds.server import ServerWorld

ID = "C15"
LEVEL = "exploration"
QUICK_RUNS = 1000
THOROUGH_SECONDS = 600
RULE_TEXT = ("Generated workflows started through _WorkflowService.start_workflow on the full server runtime stack "
             "(ServerRuntimeDecorator(IdleReleaseDecorator(PersistenceDecorator(BasicRuntime)))) with SqliteWorkflowStore or "
             "MemoryWorkflowStore: every outcome kind (result, step failure with/without retries, workflow timeout, cancel via "
             "service.cancel_handler at a tape-chosen instant, engine-side failures), idle release in between (idle_timeout on the "
             "grid), and store write faults: 1..len(persistence_backoff) consecutive injected OperationalErrors on handler-table "
             "writes (transient arm). The stored status is sampled at every stable instant (monotonicity) and compared with the "
             "outcome at quiescence. Non-trivial: the run ended AND (a store fault fired OR the run had been idle-released OR "
             "ended by cancel/timeout); distinct = abstract trace shape.")
COMPONENTS = {"real": ["server runtime stack, _WorkflowService, SqliteWorkflowStore/MemoryWorkflowStore, SqliteStateStore, engine"],
              "stub": ["llama_index_instrumentation"], "sim": ["loop, clocks, SQLite seam (fault injection at statement level)"]}
ASSUMPTIONS = ["timeout outcome is stored as failed with an error (server mapping)", "persistent store failure beyond the retry budget is only checked for never-regress"]
EXPECTED_PROBES = ["spaced-transient-faults", "outcome:completed", "outcome:failed", "outcome:cancelled", "store-fault-fired", "idle-released-before-end"]
LEVEL_TEXT = "Seeded exploration of outcomes x store-fault placements x idle-release timings; oracle on the stored handler row."
LEVEL_NOTE = "Trusted: simulator loop, SQLite seam, a raw sqlite3 read of the handlers table at stable instants."

CFG = {"driver": "result", "p_retry": 30, "p_fail": 30, "timeouts": [None, None, 3, 6], "p_pred_raises": 3, "p_ret_none": 25,
       "fan_max": 2, "n_work": (1, 3), "n_types": (1, 3), "backends": ["sqlite", "sqlite", "memory"], "quiesce_gap": 500.0,
       "persistence_backoff": [0.5, 3]}


def gen(tape, cfg):
    spec = gen_spec(tape, dict(cfg, driver=tape.choice(["result", "finish"], "driver")))
    # a quarter of the workflows end with a user-defined StopEvent subclass
    spec["stop_subclass"] = tape.chance(25, 100, "stop-subclass?")
    return spec


async def scenario(world, spec):
    world.cfg["idle_timeout"] = float(world.tape.choice([2, 5, 60], "idle_timeout"))
    inc = world.new_incarnation()
    wf = inc.add_workflow("wf", spec)
    await inc.start()
    # store faults on the handlers table
    mode = world.tape.choice(["none", "none", "transient", "transient", "persistent", "spaced", "event-append"], "fault.mode")
    world._fault_mode = mode
    if mode == "event-append" and world.backend == "sqlite":
        # ONE transient error on an insert into the event log (append_event), at a tape-chosen position of the run's stream
        world._fault_mode = "transient"
        SEAM.fault_plan.append({"table": "events", "verb": "INSERT", "n": 1, "skip": world.tape.rng_int(0, 8, "fault.ev.skip"), "inc": 1})
        world.probe("event-append-fault-planned")
        mode = "none"
    if mode == "spaced" and world.backend == "sqlite":
        # several separate writes each hit ONE transient error (never two in a row): every one of them is within the
        # per-write retry budget, however many there have been before
        world._fault_mode = "transient"
        sk = world.tape.rng_int(0, 2, "fault.skip")
        for _ in range(world.tape.rng_int(3, 4, "fault.spaced.n")):
            SEAM.fault_plan.append({"table": "handlers", "verb": None, "n": 1, "skip": sk, "inc": 1})
            sk += world.tape.rng_int(1, 3, "fault.gap")
        world.probe("spaced-transient-faults")
    elif mode != "none" and world.backend == "sqlite":
        n = world.tape.rng_int(1, 2, "fault.n") if mode == "transient" else 5
        SEAM.fault_plan.append({"table": "handlers", "verb": None, "n": n, "skip": world.tape.rng_int(0, 4, "fault.skip"), "inc": 1})
    status_log = []
    world._status_log = status_log

    def sample():
        st = _read_status(world)
        if st is not None and (not status_log or status_log[-1][1] != st):
            status_log.append((world.trace.seq, st))
    world.stable_checks.append(sample)
    start = EV.Start0(uid=world.uid())
    try:
        hd = await inc.call(inc.service.start_workflow(wf, "h1", start_event=start))
    except BaseException as e:  # noqa: BLE001
        world.trace.log("start-failed", exc=type(e).__name__)
        return {"start_failed": True}
    run_id = hd.run_id
    world._run_id = run_id
    if world.tape.chance(20, 100, "cancel?"):
        async def canc():
            d = world.tape.choice(world.cfg["grid"], "cancel.at") + world.tape.choice(world.cfg["grid"], "cancel.at2")
            if d:
                await asyncio.sleep(d)
            world.trace.log("cancel-request")
            world.fault("cancel-handler")
            try:
                r = await inc.service.cancel_handler("h1")
                world.trace.log("cancel-returned", r=str(r))
            except BaseException as e:  # noqa: BLE001
                world.trace.log("cancel-error", exc=type(e).__name__)
        inc.spawn(canc())
    if world.tape.chance(40, 100, "ext?"):
        async def sender():
            for _ in range(world.tape.rng_int(1, 4, "ext.n")):
                d = world.tape.choice(world.cfg["grid"], "ext.delay")
                if d:
                    await asyncio.sleep(d)
                tname = world.tape.choice(list(spec["types"]) + ["X0"], "ext.type")
                world.fault("external-send")
                try:
                    await inc.service.send_event("h1", world.mk(tname, -1, "ext"))
                except BaseException as e:  # noqa: BLE001
                    world.trace.log("send-rejected", exc=type(e).__name__)
        inc.spawn(sender())
    await world.loop.quiesce()
    if spec["driver"] == "finish" and _read_status(world) and _read_status(world)[0] == "running":
        world.trace.log("quiescent", phase="pre-fin")
        try:
            await inc.call(inc.service.send_event("h1", EV.Fin(uid=world.uid())))
        except BaseException as e:  # noqa: BLE001
            world.trace.log("send-error", exc=type(e).__name__, msg=str(e)[:80])
        await world.loop.quiesce()
    world.trace.log("quiescent", phase="end")
    sample()
    return {"run_id": run_id}


def _read_status(world):
    if world.backend == "memory":
        hs = list(world.memory_store.handlers.values()) if world.memory_store else []
        return (hs[0].status, hs[0].error, hs[0].result is not None) if hs else None
    try:
        conn = real_sqlite3.connect(world.tmp.db())
        try:
            row = conn.execute("SELECT status, error, result FROM handlers WHERE handler_id='h1'").fetchone()
        finally:
            conn.close()
    except real_sqlite3.Error:
        return None
    return (row[0], row[1], row[2] is not None) if row else None


def check(world, spec, outcome) -> None:
    if not outcome or outcome.get("start_failed"):
        world._nt = False
        return
    recs = world.trace.recs
    rid = outcome["run_id"]
    term = None
    released = False
    task_done = None
    # root cause attribute: the idle release aborted the control loop after it had published the terminal event, i.e. while
    # the terminal status write was still being retried (the only await between that publication and the loop's exit)
    released_while_finalizing = False
    exited_after_term = False
    for seq, t, kind, f in recs:
        if kind == "publish" and f.get("run") == rid and f["ev"] in ("StopEvent", "Stop1", "WorkflowFailedEvent", "WorkflowCancelledEvent", "WorkflowTimedOutEvent") and term is None:
            term = f["ev"]
        elif kind == "runner-exit" and term is None:
            released = True
        elif kind == "runner-exit":
            exited_after_term = True
        elif kind == "abort" and f.get("live") and term is not None and not exited_after_term:
            released_while_finalizing = True
        elif kind == "run-task-done" and f["run"] == rid:
            task_done = f
    fault_fired = any(k.startswith("store-write-error") for k in SEAM.faults_fired)
    for k, v in SEAM.faults_fired.items():
        world.fault(k, v)
    if fault_fired:
        world.probe("store-fault-fired")
    log = world._status_log
    # never regress
    seen_terminal = None
    for seq, st in log:
        if st[0] in ("completed", "failed", "cancelled"):
            seen_terminal = seen_terminal or st[0]
        elif seen_terminal is not None:
            world.violate("C15.regress", f"stored status went from {seen_terminal} back to {st[0]}", seq, frm=seen_terminal)
    final = log[-1][1] if log else None
    ended_by_error = task_done is not None and task_done["how"] == "error" and term is None
    if term is None and not ended_by_error:
        world._nt = False
        world.probe("outcome:not-ended")
        return
    want = {"StopEvent": "completed", "Stop1": "completed", "WorkflowFailedEvent": "failed", "WorkflowTimedOutEvent": "failed",
            "WorkflowCancelledEvent": "cancelled"}.get(term, "failed")
    world.probe("outcome:" + want)
    if released:
        world.probe("idle-released-before-end")
    if released_while_finalizing:
        world.probe("idle-release-aborted-terminal-status-write")
    mode = world._fault_mode
    engine_side = task_done.get("exc") if ended_by_error else None
    if mode == "persistent" and fault_fired:
        world._nt = True
        return
    if final is None:
        world.violate("C15.status-mismatch", f"run ended ({term}) but no handler row is stored", outcome=want, fault=fault_fired)
    elif final[0] == "running":
        world.violate("C15.stuck-running", f"run ended ({term or 'engine error ' + str(engine_side)}) but the stored handler is still running at quiescence",
                      outcome=want, fault=fault_fired, engine_side=engine_side or "none", backend=world.backend,
                      released_while_finalizing=released_while_finalizing)
    elif final[0] != want:
        world.violate("C15.status-mismatch", f"run ended with {term} but stored status is {final[0]}", outcome=want, got=final[0], fault=fault_fired,
                      released_while_finalizing=released_while_finalizing)
    else:
        if want == "completed" and not final[2]:
            world.violate("C15.status-mismatch", "completed handler has no stored result", outcome=want, got="no-result", fault=fault_fired)
        if want == "failed" and not final[1]:
            world.violate("C15.status-mismatch", "failed handler has no stored error", outcome=want, got="no-error", fault=fault_fired)
    world._nt = bool(fault_fired or released or want in ("cancelled",) or term == "WorkflowTimedOutEvent")


def run(tape):
    from worlds import engine_common

    def make_world(t, cfg):
        return ServerWorld(t, cfg)
    return engine_common.simulate(tape, CFG, check, gen=gen, scenario=scenario, nontrivial=lambda w, s, o: w._nt, world_cls=ServerWorld)
