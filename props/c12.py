"""C12 — pausing to a serialized context and resuming gives the same result."""
from __future__ import annotations

import json

from sim.tape import Tape
from worlds.engine import drive_resume, drive_standard
from worlds.engine_common import simulate

ID = "C12"
LEVEL = "exploration"
QUICK_RUNS = 1500
THOROUGH_SECONDS = 600
RULE_TEXT = ("Deterministic-result workflows (every logical event carries a schedule-independent path id; steps do idempotent "
             "store writes keyed by path; the final result is the sorted set of written keys): fan-out, a second stage, steps that "
             "fail their first k executions or always under stop_after_attempt(n), optional wildcard @catch_error with a "
             "recovery budget. Each program runs twice on the same tape: interrupted (ctx.to_dict -> JSON -> abandon -> "
             "Context.from_dict -> run) at a tape-chosen instant, and uninterrupted as the reference. Non-trivial: the snapshot "
             "was taken while >=1 step invocation was in progress or queued or a retry was pending; distinct = abstract trace "
             "shape of the interrupted run.")
COMPONENTS = {"real": ["workflows.* engine, BrokerState.to_serialized/from_serialized, Context.to_dict/from_dict, InMemoryStateStore"],
              "stub": ["llama_index_instrumentation"], "sim": ["loop, clock, snapshot/resume driver"]}
ASSUMPTIONS = ["the abandoned incarnation is hard-stopped at the snapshot instant; what it still does afterwards is ignored",
               "an invocation interrupted by the snapshot does not count against the retry budget; completed (failed) attempts do"]
EXPECTED_PROBES = ["earlier-checkpoint-of-same-context", "roundtrip-with-waiter", "roundtrip-with-requirement-waiter", "roundtrip-with-collected-events", "twin-deliveries", "snapshot-with-inflight", "snapshot-with-queued", "snapshot-with-pending-retry", "inflight-had-attempts", "snapshot-with-delayed-retry-pending"]
LEVEL_TEXT = ("Seeded exploration of snapshot instants x programs, differential against the uninterrupted run on the same tape, "
              "plus a budget count over both incarnations and a serialize/deserialize fixpoint check of the snapshot itself.")
LEVEL_NOTE = "Trusted: simulator loop; determinism-by-construction of the generated programs (path ids, idempotent writes)."

CFG = {"allow_join": True, "checkpoints": True, "driver": "finish", "grid": [0, 1, 1, 2, 3], "p_wait": 0, "p_external": 0, "allow_twins": True}


def gen(tape, cfg):
    n0 = tape.rng_int(1, 4, "n0")
    k0 = tape.choice([0, 0, 1, 2, -1], "w0.fail")
    n_att = tape.rng_int(1, 4, "w0.attempts")
    delay = tape.choice([0, 0, 1, 2], "w0.delay")
    pol0 = {"retry": None, "wait": ("fixed", delay) if delay else ("none",), "stop": ("attempt", n_att)} if tape.chance(70, 100, "w0.pol") else None
    two = tape.chance(60, 100, "two")
    twins = bool(cfg.get("allow_twins")) and tape.chance(25, 100, "twins")
    if twins:
        # identical-payload deliveries (the same event sent twice); no failures in this arm, its oracle is the per-delivery
        # completion count against the uninterrupted reference
        k0, n0 = 0, min(n0, 2)
    steps = [
        {"name": "s0", "accepts": ["Start0"], "workers": 1, "sync": False, "retry": None, "role": "step",
         "scripts": {"Start0": [("work",), ("pset",), ("ptwin" if twins else "psend", "E0", n0), ("ret", None)]}, "returns": ["E0"], "stop": False},
        {"name": "w0", "accepts": ["E0"], "workers": tape.rng_int(1, 3, "w0.w"), "sync": False, "retry": pol0, "role": "step",
         "scripts": {"E0": [("work",), ("failpath", "ValueError", k0), ("pset",)] + ([("psend", "E1", tape.rng_int(1, 2, "m"))] if two else []) + [("ret", None)]},
         "returns": ["E1"] if two else [], "stop": False},
    ]
    if two:
        k1 = tape.choice([0, 0, 1], "w1.fail")
        steps.append({"name": "w1", "accepts": ["E1"], "workers": tape.rng_int(1, 3, "w1.w"), "sync": False,
                      "retry": {"retry": None, "wait": ("none",), "stop": ("attempt", 3)}, "role": "step",
                      "scripts": {"E1": [("work",), ("failpath", "KeyError", k1), ("pset",), ("ret", None)]}, "returns": [], "stop": False})
    if tape.chance(40, 100, "handler"):
        steps.append({"name": "h", "accepts": ["StepFailedEvent"], "workers": 1, "sync": False, "retry": None, "role": "catch",
                      "for_steps": None, "max_recoveries": tape.rng_int(1, 2, "h.max"),
                      "scripts": {"StepFailedEvent": [("work",), ("hset",), ("ret", None)]}, "returns": [], "stop": False})
    join = False
    if cfg.get("allow_join") and two and not twins and tape.chance(35, 100, "join?"):
        # a fan-in: s0 also sends one E2; step jn collects one E1 (the first to arrive; later ones stay buffered as surplus) and the
        # E2, then writes one fixed key. Whatever the schedule, a complete run writes "jn_done" exactly when >=1 E1 was produced.
        join = True
        s0 = steps[0]
        s0["scripts"] = {k: [a for a in sc if a[0] != "ret"] + [("psend", "E2", 1), ("ret", None)] for k, sc in s0["scripts"].items()}
        s0["returns"] = ["E0", "E2"]
        steps.append({"name": "jn", "accepts": ["E1", "E2"], "workers": 1, "sync": False, "retry": None, "role": "step",
                      "scripts": {t: [("collect", ["E1", "E2"], None), ("psetk", "jn_done"), ("ret", None)] for t in ("E1", "E2")},
                      "returns": [], "stop": False})
    steps.append({"name": "zfin", "accepts": ["Fin"], "workers": 1, "sync": False, "retry": None, "role": "step",
                  "scripts": {"Fin": [("pstop",)]}, "returns": [], "stop": True})
    return {"steps": steps, "types": (["E0", "E1", "E2"] if join else (["E0", "E1"] if two else ["E0"])), "timeout": None, "driver": "finish", "disable_validation": False,
            "twins": twins, "join": join}


def completions(recs) -> dict:
    """(step, path) -> number of step results the engine processed"""
    path_of: dict = {1: "r", 0: "r"}
    out: dict = {}
    for seq, t, kind, f in recs:
        if kind == "emit" and f.get("path") is not None and f["uid"] is not None:
            path_of[f["uid"]] = f["path"]
        elif kind == "tick" and f["tick"] == "step_result" and any(r[0] == "result" for r in f["res"]):
            u = f["uid"]
            if not isinstance(u, (list, tuple)) and u in path_of:
                k = f"{f['step']}/{path_of[u]}"
                out[k] = out.get(k, 0) + 1
    return out


def _summary(world, outcome):
    if outcome is None:
        return None
    if "result" in outcome:
        r = outcome["result"]
        res = ("result", tuple(getattr(r, "result", None) or ()))
    elif "error" in outcome:
        import re
        res = ("error", type(outcome["error"]).__name__)
    else:
        res = ("other",)
    store = None
    try:
        h = outcome["handler"]
        st = h.ctx.store
        d = st._state.get("d", {}) if hasattr(st, "_state") else {}
        store = json.dumps({"d": sorted(d)}, sort_keys=True, default=str)
    except Exception as e:  # noqa: BLE001
        store = f"unreadable: {type(e).__name__}"
    return {"res": res, "store": store}


_LAST: dict = {}


def check(world, spec, outcome) -> None:
    recs = world.live_recs()
    _LAST["summary"] = _summary(world, outcome)
    _LAST["completions"] = completions(recs)
    _LAST["twins"] = bool(spec.get("twins"))
    if spec.get("twins"):
        world.probe("twin-deliveries")
    _LAST["resumed"] = bool(outcome and outcome.get("resumed"))
    # budget across incarnations: completed executions per (step, path)
    budget = {s["name"]: (s["retry"]["stop"][1] if s["retry"] else 1) for s in spec["steps"] if s["role"] == "step"}
    execs: dict = {}
    open_inv: dict = {}
    path_of: dict = {1: "r", 0: "r"}
    snap_seq = None
    inflight = queued = pend_retry = False
    pending_delayed: dict = {}
    assigned_retry: dict = {}
    _LAST["pending_delayed_retry"] = _LAST["inflight_with_attempts"] = False
    for seq, t, kind, f in recs:
        if kind == "emit" and f.get("path") is not None and f["uid"] is not None:
            path_of[f["uid"]] = f["path"]
        elif kind == "enter" and f.get("path") is not None:
            open_inv[f["inv"]] = (f["step"], f["path"], f["retry"])
        elif kind == "exit":
            open_inv.pop(f["inv"], None)
        elif kind == "tick" and f["tick"] == "step_result" and any(r[0] in ("result", "failed") for r in f["res"]):
            # an execution counts once the engine has processed its outcome
            u = f["uid"]
            if snap_seq is None:
                assigned_retry.pop((f["step"], u if not isinstance(u, list) else tuple(u)), None)
            if not isinstance(u, (list, tuple)) and u in path_of:
                k = (f["step"], path_of[u])
                execs[k] = execs.get(k, 0) + 1
            if any(r[0] == "failed" for r in f["res"]) and snap_seq is None:
                pol = next((st["retry"] for st in spec["steps"] if st["name"] == f["step"]), None)
                if pol and pol["wait"][0] == "fixed" and pol["wait"][1] > 0:
                    pending_delayed[(f["step"], f["uid"])] = seq
        elif kind == "tick" and f["tick"] == "step_result" and any(r[0] == "failed" for r in f["res"]) and snap_seq is None:
            pol = next((st["retry"] for st in spec["steps"] if st["name"] == f["step"]), None)
            if pol and pol["wait"][0] == "fixed" and pol["wait"][1] > 0:
                pending_delayed[(f["step"], f["uid"])] = seq
        elif kind == "tick" and f["tick"] == "add_event" and (f.get("attempts") or 0) >= 1:
            pending_delayed.pop((f.get("target"), f["uid"]), None)
            if snap_seq is None:
                assigned_retry[(f.get("target"), f["uid"])] = f["attempts"]
        elif kind == "publish" and f["ev"] == "WorkflowFailedEvent":
            pending_delayed.clear()
        elif kind == "snapshot":
            snap_seq = seq
            _LAST["pending_delayed_retry"] = bool(pending_delayed)
            _LAST["inflight_with_attempts"] = bool(assigned_retry) or any(rn for _, _, rn in open_inv.values())
            if pending_delayed:
                world.probe("snapshot-with-delayed-retry-pending")
            if open_inv:
                inflight = True
                world.probe("snapshot-with-inflight")
                if any(rn for _, _, rn in open_inv.values()):
                    world.probe("inflight-had-attempts")
    for (st, path), n in execs.items():
        if spec.get("twins"):
            break
        if st in budget and n > max(budget[st], 1) and _LAST["resumed"]:
            world.violate("C12.retry-budget", f"step {st} executed {n} times for logical event {path!r} across both incarnations; "
                          f"stop_after_attempt({budget[st]})", inflight_with_attempts=_LAST["inflight_with_attempts"])
    # handler budget per lineage (path prefix) across incarnations
    for s in spec["steps"]:
        if s["role"] == "catch":
            cnt: dict = {}
            for seq, t, kind, f in recs:
                if kind == "step-failed-event":
                    pass
    for st, path, seq in ([] if spec.get("twins") else reexecuted_completed(recs)):
        world.violate("C12.reexecuted-completed", f"step {st} was executed again for logical event {path!r} after the resume although its "
                      f"completion was already recorded before the snapshot", seq)
    js = outcome.get("snapshot") if outcome else None
    if js is not None:
        import re
        inprog = set()
        for st, v in js.get("workers", {}).items():
            for evs in v.get("in_progress", []):
                m = re.search(r'"uid":\s*(\d+)', evs if isinstance(evs, str) else json.dumps(evs))
                if m:
                    inprog.add((st, int(m.group(1))))
        _LAST["inflight_with_attempts"] = bool(inprog & set(assigned_retry))
        for v in world.violations:
            if v["rule"] == "C12.retry-budget":
                v["cause"]["inflight_with_attempts"] = _LAST["inflight_with_attempts"]
        _roundtrip(world, spec, outcome, js)
        w = js.get("workers", {})
        if any(v.get("queue") for v in w.values()):
            world.probe("snapshot-with-queued")
            queued = True
        if any(any((q.get("attempts") or 0) > 0 for q in v.get("queue", [])) for v in w.values()):
            world.probe("snapshot-with-pending-retry")
            pend_retry = True
    world._nt = bool(_LAST["resumed"]) and (inflight or queued or pend_retry)


def reexecuted_completed(recs, snap_kind="snapshot"):
    """(step, path) whose outcome the first incarnation had already processed (result tick in its tick log)
    but which the resumed incarnation executed again."""
    path_of: dict = {1: "r", 0: "r"}
    done = set()
    snap = False
    out = []
    for seq, t, kind, f in recs:
        if kind == "emit" and f.get("path") is not None and f["uid"] is not None:
            path_of[f["uid"]] = f["path"]
        elif kind == snap_kind:
            snap = True
        elif kind == "tick" and f["tick"] == "step_result" and not snap and any(r[0] == "result" for r in f["res"]):
            u = f["uid"]
            if not isinstance(u, (list, tuple)) and u in path_of:
                done.add((f["step"], path_of[u]))
        elif kind == "enter" and snap and f.get("path") is not None and (f["step"], f["path"]) in done:
            out.append((f["step"], f["path"], seq))
    return out


def _roundtrip(world, spec, outcome, js) -> None:
    from workflows.context.context_types import SerializedContext
    from workflows.context.serializers import JsonSerializer
    from workflows.runtime.types.internal_state import BrokerState

    from props.c11 import _abs
    ser = JsonSerializer()
    wf = outcome["wf"]
    try:
        s1 = BrokerState.from_serialized(SerializedContext.from_dict_auto(js), wf, ser)
        d2 = json.loads(json.dumps(s1.to_serialized(ser).model_dump(mode="python"), default=str))
        s2 = BrokerState.from_serialized(SerializedContext.from_dict_auto(d2), wf, ser)
    except Exception as e:  # noqa: BLE001
        world.violate("C12.roundtrip-unstable", f"re-serializing the deserialized snapshot failed: {type(e).__name__}: {e}", how="raises")
        return
    a, b = _abs(s1), _abs(s2)
    if a != b:
        diff = [k for k in a if a[k] != b[k]]
        world.violate("C12.roundtrip-unstable", f"deserialize(serialize(deserialize(x))) != deserialize(x) at {diff}: {[(a[k], b[k]) for k in diff][:2]}", how="differs")


# round-trip arm: general generated programs (waiters with and without requirements, collect buffers, retries, external
# responders) snapshotted at a tape-chosen instant; only the serialized form's fixpoint is judged here (their results are
# schedule-dependent, so there is no reference run)
RT_CFG = {"driver": "finish", "p_wait": 60, "p_collect": 35, "p_retry": 25, "p_fail": 15, "p_wait_self": 15, "p_resp_step": 15,
          "n_work": (1, 3), "n_types": (1, 3), "fan_max": 3, "wait_timeouts": [None, "default", 3, 6]}


def _rt_check(world, spec, outcome) -> None:
    js = outcome.get("snapshot") if outcome else None
    world._nt = False
    if js is None:
        return
    w = js.get("workers", {})
    if any(v.get("collected_waiters") for v in w.values()):
        world.probe("roundtrip-with-waiter")
        world._nt = True
        if any(x.get("has_requirements") for v in w.values() for x in v.get("collected_waiters", [])):
            world.probe("roundtrip-with-requirement-waiter")
    if any(any(b for b in (v.get("collected_events") or {}).values()) for v in w.values()):
        world.probe("roundtrip-with-collected-events")
        world._nt = True
    _roundtrip(world, spec, outcome, js)


def run(tape):
    if tape.draw(4, "c12.arm") == 0:
        res = simulate(tape, RT_CFG, _rt_check, scenario=drive_resume, nontrivial=lambda w, s, o: getattr(w, "_nt", False))
        res["evals"] = 1
        return res
    res1 = simulate(tape, CFG, check, gen=gen, scenario=drive_resume, nontrivial=lambda w, s, o: w._nt)
    s1, resumed = _LAST.get("summary"), _LAST.get("resumed")
    t2 = Tape(replay=list(tape.values)[1:])     # the reference consumes the same draws, minus the leading arm draw
    comp1 = _LAST.get("completions") or {}

    def _ref(w, s, o):
        _LAST["ref"] = _summary(w, o)
        _LAST["ref_completions"] = completions(w.trace.recs)
    res2 = simulate(t2, CFG, _ref, gen=gen, scenario=drive_standard)
    ref = _LAST.get("ref")
    if res1["harness"] is None and res2["harness"] is None and resumed and s1 and ref and s1["res"][0] == "result" and ref["res"][0] == "result":
        # every invocation that had not completed at the snapshot is executed again: per delivery target, the interrupted + resumed
        # run processes at least as many step results as the uninterrupted run (at-least-once; identical payloads count separately)
        short = {k: (comp1.get(k, 0), n) for k, n in (_LAST.get("ref_completions") or {}).items() if comp1.get(k, 0) < n}
        if short:
            res1["violations"] = res1["violations"] + [{"rule": "C12.invocation-lost", "cause": {"identical_payloads": bool(_LAST.get("twins")), "pending_delayed_retry": _LAST.get("pending_delayed_retry", False)}, "seq": 0,
                                                        "msg": f"step results processed (interrupted+resumed, reference) per step/path: {short}: "
                                                               f"an invocation that had not completed at the snapshot was never re-executed"}]
    if res1["harness"] is None and res2["harness"] is None and resumed and s1 and ref:
        if s1["res"] != ref["res"]:
            kind = s1["res"][0] + "-vs-" + ref["res"][0]
            res1["violations"] = res1["violations"] + [{"rule": "C12.result", "cause": {"pending_delayed_retry": _LAST.get("pending_delayed_retry", False),
                                                                                      "inflight_with_attempts": _LAST.get("inflight_with_attempts", False)}, "seq": 0,
                                                        "msg": f"resumed run ended with {s1['res']}, uninterrupted reference with {ref['res']}"}]
        elif s1["store"] != ref["store"]:
            res1["violations"] = res1["violations"] + [{"rule": "C12.state-store", "cause": {}, "seq": 0,
                                                        "msg": f"state store after resumed run {s1['store']} != reference {ref['store']}"}]
    res1["harness"] = res1["harness"] or res2["harness"]
    res1["evals"] = 2
    return res1
