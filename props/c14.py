"""C14 — pending retries and waiter timeouts survive idle release and restart."""
from __future__ import annotations

import asyncio

from sim.sqlite_seam import SEAM
from worlds import events as EV
from worlds import engine_common
from worlds.server import ServerWorld
from props.c15 import _read_status

ID = "C14"
LEVEL = "exploration"
QUICK_RUNS = 600
THOROUGH_SECONDS = 600
RULE_TEXT = ("Server stack (SQLite or memory store). Program: one step that either fails its first attempt under "
             "retry_policy(wait=wait_fixed(D)) or suspends in ctx.wait_for_event(timeout=T), D,T in {2,4,8,16}, and nothing else to "
             "do, optionally twice in a row (second retry / second wait) and optionally next to a sibling step whose body ends at the "
             "instant the timer is due; idle_timeout drawn below/equal/between (1.5x)/above the timer; optionally a process crash + restart at a tape-chosen instant "
             "while the timer is pending (SQLite only). After max(D,T)+idle_timeout+slack of virtual time (simulator quiescence, "
             "gap 500 s) the retry attempt must have run / the waiting step must have received TimeoutError, and the handler must be "
             "completed. Non-trivial: the run was released or restarted while the timer was pending; distinct = (timer kind, D/T vs "
             "idle_timeout relation, via, trace shape).")
COMPONENTS = {"real": ["server runtime stack, IdleReleaseDecorator release/reload, PersistenceDecorator restart, engine scheduled wake-ups"],
              "stub": ["llama_index_instrumentation"], "sim": ["loop, clocks, SQLite seam (crash), incarnations"]}
ASSUMPTIONS = ["'really elapsed' is virtual time; quiescence gap (500 s) is far above every timer in the program"]
EXPECTED_PROBES = ["two-waiter-timers-and-workflow-timeout-pending", "one-wait-answered-while-another-timer-pending", "chained-timers-idle_timeout-between", "released-with-timer-pending", "restarted-with-timer-pending", "timer-fired-in-memory"]
LEVEL_TEXT = "Seeded exploration of timer/idle_timeout relations and restart instants; liveness judged only at simulator quiescence."
LEVEL_NOTE = "Trusted: simulator loop/clocks, crash fence."

CFG = {"driver": "result", "backends": ["sqlite", "sqlite", "memory"], "quiesce_gap": 500.0, "grid": [0, 0, 1]}


def gen(tape, cfg):
    kind = tape.choice(["retry", "wait"], "timer.kind")
    D = tape.choice([2, 4, 8, 16], "timer.d")
    chain = 2 if tape.chance(45, 100, "chain?") else 1          # two timers one after the other (second retry / second wait)
    if kind == "retry":
        steps = [{"name": "s0", "accepts": ["Start0"], "workers": 1, "sync": False,
                  "retry": {"retry": None, "wait": ("fixed", D), "stop": ("attempt", 4)}, "role": "step",
                  "scripts": {"Start0": [("work",), ("failpath", "ValueError", chain), ("ret", "stop")]}, "returns": [], "stop": True}]
    else:
        req = tape.chance(50, 100, "req")
        waits = [("wait", "Resp0", req, D, f"w{i}", False, "continue") for i in range(chain)]
        steps = [{"name": "s0", "accepts": ["Start0"], "workers": 1, "sync": False, "retry": None, "role": "step",
                  "scripts": {"Start0": [("work",)] + waits + [("ret", "stop")]},
                  "returns": [], "stop": True}]
    side = None
    if tape.chance(35, 100, "side?"):
        # a second step consuming the start event whose body ends at / next to the instant the first timer is due
        side = tape.choice([D, D, D + 1, D - 1], "side.sleep")
        steps.append({"name": "side", "accepts": ["Start0"], "workers": 1, "sync": False, "retry": None, "role": "step",
                      "scripts": {"Start0": [("sleep", side), ("ret", None)]}, "returns": [], "stop": False})
    return {"steps": steps, "types": [], "timeout": None, "driver": "result", "disable_validation": False, "timer": kind, "D": D,
            "chain": chain, "side": side}


async def scenario(world, spec):
    D = spec["D"]
    rel = world.tape.choice(["below", "equal", "between", "between", "above", "far-above"], "idle.rel")
    world.cfg["idle_timeout"] = float({"below": D / 2, "equal": D, "between": D * 1.5, "above": D * 2, "far-above": 400}[rel])
    restart = world.backend == "sqlite" and world.tape.chance(40, 100, "restart?")
    inc = world.new_incarnation()
    wf = inc.add_workflow("wf", spec)
    await inc.start()
    start = EV.Start0(uid=world.uid())
    await inc.call(inc.service.start_workflow(wf, "h1", start_event=start))
    out = {"rel": rel, "via": "none", "timer": spec["timer"]}
    if restart:
        x = world.tape.choice([0, 1, D / 2, D - 1, D - 0.5], "restart.at")
        await asyncio.sleep(max(0, x))
        st = _read_status(world)
        if st and st[0] == "running":
            world.trace.log("crash-request", at=x)
            SEAM.crash_now(1)
            await world.kill(inc)
            world.open_bodies.clear()
            inc = world.new_incarnation()
            inc.add_workflow("wf", spec)
            await inc.start()
            out["via"] = "restart"
            world.probe("restarted-with-timer-pending")
    await world.loop.quiesce()
    world.trace.log("quiescent", phase="end")
    out["final"] = _read_status(world)
    return out


def check(world, spec, outcome) -> None:
    recs = world.trace.recs
    kind = spec["timer"]
    n = spec["chain"]
    it = world.cfg["idle_timeout"]
    max_retry = max([f["retry"] for _, _, k, f in recs if k == "enter" and f["step"] == "s0"] or [0])
    n_timeouts = sum(1 for _, _, k, f in recs if k == "wait-timeout")
    fail_t = next((t for _, t, k, f in recs if k == "exit" and f["step"] == "s0" and str(f["exit"]).startswith("raised")), None)
    susp_t = next((t for _, t, k, f in recs if k == "exit" and f["step"] == "s0" and f["exit"] == "suspended"), None)
    released = [t for _, t, k, f in recs if k == "runner-exit"]
    idle_ann = [t for _, t, k, f in recs if k == "publish" and f["ev"] == "WorkflowIdleEvent"]
    via = outcome["via"]
    t_timer = (fail_t if kind == "retry" else susp_t)
    if t_timer is None:
        world._nt = False
        return
    # per timer of the chain: when did it start, when was it due, did its action happen, and was the control loop that owned it
    # still alive at the due instant?  A timer that is lost although nothing released or killed its loop before it was due is
    # not one of the recorded defects (those lose timers that are pending AT a release / restart).
    seq_done = next((q for q, t, k, f in recs if k == "publish" and f["ev"] in ("StopEvent", "WorkflowFailedEvent")), None)
    exits = [(q, t) for q, t, k, f in recs if k in ("runner-exit", "crash") and (seq_done is None or q < seq_done)]
    if kind == "retry":
        starts = [t for _, t, k, f in recs if k == "exit" and f["step"] == "s0" and str(f["exit"]).startswith("raised")][:n]
        acts = sorted(t for _, t, k, f in recs if k == "enter" and f["step"] == "s0" and f["retry"] >= 1)
    else:
        starts = [t for _, t, k, f in recs if k == "exit" and f["step"] == "s0" and f["exit"] == "suspended"][:n]
        acts = sorted(t for _, t, k, f in recs if k == "wait-timeout")
    lost_in_memory = False
    rel_in = []
    for i, ts in enumerate(starts):
        due = ts + spec["D"]
        ex = [t for _, t in exits if ts <= t <= due + 1e-9]
        if ex:
            rel_in.append(ex[0])
        if i >= len(acts) and not ex:
            lost_in_memory = True
            world.probe("timer-due-while-loop-alive-but-lost")
    if not rel_in and len(acts) >= len(starts):
        # every timer fired; a release after that (while the re-executed body runs) belongs to the early-release family
        rel_in = [t for _, t in exits if t >= t_timer]
    if lost_in_memory and via == "none":
        via = "in-memory"
    if via == "none" and rel_in:
        via = "idle-release"
        world.probe("released-with-timer-pending")
    if via == "none":
        world.probe("timer-fired-in-memory")
    if n == 2 and spec["D"] < it < 2 * spec["D"]:
        world.probe("chained-timers-idle_timeout-between")
    # root cause attribute: was the run released although the idle period it was released for had NOT lasted idle_timeout?
    # (the recorded defects release a run whose idleness has lasted idle_timeout while a timer is pending; a release before
    # that is a different failure)
    premature = False
    if via == "idle-release":
        t_rel = rel_in[0]
        last_idle = max([t for t in idle_ann if t <= t_rel] or [None], key=lambda x: -1 if x is None else x)
        premature = last_idle is not None and (t_rel - last_idle) < it - 1e-9
    final = outcome.get("final")
    cause = {"via": via, "timer": kind, "premature_release": premature}
    if kind == "retry" and max_retry < n:
        world.violate("C14.retry-lost", f"step failed at t={fail_t} with wait_fixed({spec['D']}) x{n}; only {max_retry} of {n} retries ran by t={world.clock.t} "
                      f"(idle_timeout={it}, {via})", **cause)
    if kind == "wait" and n_timeouts < n:
        world.violate("C14.timeout-lost", f"step suspended at t={susp_t} with timeout={spec['D']} x{n}; {n_timeouts} of {n} TimeoutErrors by t={world.clock.t} "
                      f"(idle_timeout={it}, {via})", **cause)
    if final is None or final[0] == "running":
        world.violate("C14.running-forever", f"handler is {final} at quiescence (t={world.clock.t}); timer {kind} D={spec['D']} x{n}, {via}", **cause)
    world._nt = via != "none"


# ---------------------------------------------------------------------------------------------------------------------------
# timer-constellation arm: several timers of one run pending side by side (the workflow timeout, two parallel waits with their own
# timeouts, one of which may be answered before it expires); idle_timeout far above all of them, no restart: nothing is released or
# killed, so every timer simply has to fire.


def gen_multi(tape, cfg):
    ta = tape.choice([2, 4, 6, 9], "m.ta")
    tb = tape.choice([2, 4, 6, 9], "m.tb")
    gap = tape.choice([0, 0, 1, 3], "m.gap")
    steps = [
        {"name": "s0", "accepts": ["Start0"], "workers": 1, "sync": False, "retry": None, "role": "step",
         "scripts": {"Start0": [("psend", "E0", 1), ("psend", "E1", 1), ("ret", None)]}, "returns": ["E0", "E1"], "stop": False},
        {"name": "wa", "accepts": ["E0"], "workers": 1, "sync": False, "retry": None, "role": "step",
         "scripts": {"E0": [("wait", "Resp0", True, ta, "wa", False, "continue"), ("ret", None)]}, "returns": [], "stop": False},
        {"name": "wb", "accepts": ["E1"], "workers": 1, "sync": False, "retry": None, "role": "step",
         "scripts": {"E1": ([("sleep", gap)] if gap else []) + [("wait", "Resp1", True, tb, "wb", False, "continue"), ("ret", "stop")]}, "returns": [], "stop": True},
    ]
    return {"steps": steps, "types": ["E0", "E1"], "timeout": tape.choice([40, 40, 25], "m.tt"), "driver": "result", "disable_validation": False,
            "ta": ta, "tb": tb, "gap": gap, "answer_at": tape.choice([None, 1, 1, 3, 5], "m.answer")}


async def scenario_multi(world, spec):
    world.cfg["idle_timeout"] = 400.0
    inc = world.new_incarnation()
    wf = inc.add_workflow("wf", spec)
    await inc.start()
    await inc.call(inc.service.start_workflow(wf, "h1", start_event=EV.Start0(uid=world.uid())))
    if spec["answer_at"] is not None:
        await asyncio.sleep(spec["answer_at"])
        call = next((c for c in world.wait_calls if c["step"] == "wa"), None)
        if call is not None and _read_status(world) and _read_status(world)[0] == "running":
            world.trace.log("answer", key=call["key"])
            try:
                await inc.call(inc.service.send_event("h1", EV.Resp0(uid=world.uid(), key=call["key"])))
            except BaseException as e:  # noqa: BLE001
                world.trace.log("answer-error", exc=type(e).__name__)
    await world.loop.quiesce()
    world.trace.log("quiescent", phase="end")
    return {"final": _read_status(world)}


def check_multi(world, spec, outcome) -> None:
    recs = world.trace.recs
    res = {f["step"]: t for _, t, k, f in recs if k == "wait-result"}
    tos = {f["step"]: t for _, t, k, f in recs if k == "wait-timeout"}
    susp = {}
    for _, t, k, f in recs:
        if k == "exit" and f["exit"] == "suspended":
            susp.setdefault(f["step"], t)
    world._nt = "wa" in susp and "wb" in susp
    if world._nt:
        world.probe("two-waiter-timers-and-workflow-timeout-pending")
    if "wa" in res:
        world.probe("one-wait-answered-while-another-timer-pending")
    cause = {"via": "in-memory", "timer": "wait", "premature_release": False, "arm": "constellation"}
    final = outcome.get("final") if outcome else None
    t_end = next((t for _, t, k, f in recs if k == "publish" and f["ev"] in ("StopEvent", "WorkflowFailedEvent", "WorkflowTimedOutEvent", "WorkflowCancelledEvent")), world.clock.t)
    for st, T in (("wa", spec["ta"]), ("wb", spec["tb"])):
        # owed only if the wait was still pending, and the run still alive, when the timeout was due
        if st in susp and st not in res and st not in tos and susp[st] + T < min(t_end, world.clock.t) - 1e-9:
            world.violate("C14.timeout-lost", f"step {st} suspended at t={susp[st]} with timeout={T} (other wait: answered={'wa' in res}, workflow timeout {spec['timeout']}); "
                          f"no TimeoutError by t={world.clock.t}; handler {final}", **cause)
    if final is None or final[0] == "running":
        world.violate("C14.running-forever", f"handler is {final} at quiescence (t={world.clock.t}); constellation ta={spec['ta']} tb={spec['tb']} gap={spec['gap']}", **cause)
    elif final[0] != "completed" and "wb" in susp and susp["wb"] + spec["tb"] < spec["timeout"]:
        world.violate("C14.timeout-lost", f"the waits were due at {susp.get('wa', 0) + spec['ta']} / {susp['wb'] + spec['tb']}, well before the workflow timeout {spec['timeout']}, "
                      f"yet the run ended {final}", **dict(cause, how="run-did-not-complete"))


def run(tape):
    if tape.draw(4, "c14.arm") == 0:
        return engine_common.simulate(tape, CFG, check_multi, gen=gen_multi, scenario=scenario_multi, nontrivial=lambda w, s, o: w._nt, world_cls=ServerWorld)
    return engine_common.simulate(tape, CFG, check, gen=gen, scenario=scenario, nontrivial=lambda w, s, o: w._nt, world_cls=ServerWorld)
