"""C14 — pending retries and waiter timeouts survive idle release and restart."""
from __future__ import annotations

import asyncio

from sim.sqlite_seam import SEAM
from worlds import events as EV
from worlds import engine_common
from worlds.server import ServerWorld
from props.c15 import _read_status

ID = "C14"
LEVEL = "exploration"
QUICK_RUNS = 600
THOROUGH_SECONDS = 600
RULE_TEXT = ("Server stack (SQLite or memory store). Program: one step that either fails its first attempt under "
             "retry_policy(wait=wait_fixed(D)) or suspends in ctx.wait_for_event(timeout=T), D,T in {2,4,8,16}, and nothing else to "
             "do; idle_timeout drawn below/equal/above the timer; optionally a process crash + restart at a tape-chosen instant "
             "while the timer is pending (SQLite only). After max(D,T)+idle_timeout+slack of virtual time (simulator quiescence, "
             "gap 500 s) the retry attempt must have run / the waiting step must have received TimeoutError, and the handler must be "
             "completed. Non-trivial: the run was released or restarted while the timer was pending; distinct = (timer kind, D/T vs "
             "idle_timeout relation, via, trace shape).")
COMPONENTS = {"real": ["server runtime stack, IdleReleaseDecorator release/reload, PersistenceDecorator restart, engine scheduled wake-ups"],
              "stub": ["llama_index_instrumentation"], "sim": ["loop, clocks, SQLite seam (crash), incarnations"]}
ASSUMPTIONS = ["'really elapsed' is virtual time; quiescence gap (500 s) is far above every timer in the program"]
EXPECTED_PROBES = ["released-with-timer-pending", "restarted-with-timer-pending", "timer-fired-in-memory"]
LEVEL_TEXT = "Seeded exploration of timer/idle_timeout relations and restart instants; liveness judged only at simulator quiescence."
LEVEL_NOTE = "Trusted: simulator loop/clocks, crash fence."

CFG = {"driver": "result", "backends": ["sqlite", "sqlite", "memory"], "quiesce_gap": 500.0, "grid": [0, 0, 1]}


def gen(tape, cfg):
    kind = tape.choice(["retry", "wait"], "timer.kind")
    D = tape.choice([2, 4, 8, 16], "timer.d")
    if kind == "retry":
        steps = [{"name": "s0", "accepts": ["Start0"], "workers": 1, "sync": False,
                  "retry": {"retry": None, "wait": ("fixed", D), "stop": ("attempt", 3)}, "role": "step",
                  "scripts": {"Start0": [("work",), ("failpath", "ValueError", 1), ("ret", "stop")]}, "returns": [], "stop": True}]
    else:
        steps = [{"name": "s0", "accepts": ["Start0"], "workers": 1, "sync": False, "retry": None, "role": "step",
                  "scripts": {"Start0": [("work",), ("wait", "Resp0", tape.chance(50, 100, "req"), D, "w", False, "continue"), ("ret", "stop")]},
                  "returns": [], "stop": True}]
    return {"steps": steps, "types": [], "timeout": None, "driver": "result", "disable_validation": False, "timer": kind, "D": D}


async def scenario(world, spec):
    D = spec["D"]
    rel = world.tape.choice(["below", "equal", "above", "far-above"], "idle.rel")
    world.cfg["idle_timeout"] = float({"below": D / 2, "equal": D, "above": D * 2, "far-above": 400}[rel])
    restart = world.backend == "sqlite" and world.tape.chance(40, 100, "restart?")
    inc = world.new_incarnation()
    wf = inc.add_workflow("wf", spec)
    await inc.start()
    start = EV.Start0(uid=world.uid())
    await inc.call(inc.service.start_workflow(wf, "h1", start_event=start))
    out = {"rel": rel, "via": "none", "timer": spec["timer"]}
    if restart:
        x = world.tape.choice([0, 1, D / 2, D - 1, D - 0.5], "restart.at")
        await asyncio.sleep(max(0, x))
        st = _read_status(world)
        if st and st[0] == "running":
            world.trace.log("crash-request", at=x)
            SEAM.crash_now(1)
            await world.kill(inc)
            world.open_bodies.clear()
            inc = world.new_incarnation()
            inc.add_workflow("wf", spec)
            await inc.start()
            out["via"] = "restart"
            world.probe("restarted-with-timer-pending")
    await world.loop.quiesce()
    world.trace.log("quiescent", phase="end")
    out["final"] = _read_status(world)
    return out


def check(world, spec, outcome) -> None:
    recs = world.trace.recs
    kind = spec["timer"]
    retried = any(k == "enter" and f["step"] == "s0" and f["retry"] >= 1 for _, _, k, f in recs)
    timed_out = any(k == "wait-timeout" for _, _, k, f in recs)
    fail_t = next((t for _, t, k, f in recs if k == "exit" and str(f["exit"]).startswith("raised")), None)
    susp_t = next((t for _, t, k, f in recs if k == "exit" and f["exit"] == "suspended"), None)
    released = [t for _, t, k, f in recs if k == "runner-exit"]
    via = outcome["via"]
    t_timer = (fail_t if kind == "retry" else susp_t)
    if t_timer is None:
        world._nt = False
        return
    deadline = t_timer + spec["D"]
    rel_before = any(t_timer <= t <= deadline for t in released)
    if via == "none" and rel_before:
        via = "idle-release"
        world.probe("released-with-timer-pending")
    if via == "none":
        world.probe("timer-fired-in-memory")
    final = outcome.get("final")
    cause = {"via": via, "timer": kind}
    if kind == "retry" and not retried:
        world.violate("C14.retry-lost", f"step failed at t={fail_t} with wait_fixed({spec['D']}); the retry never ran by t={world.clock.t} "
                      f"(idle_timeout={world.cfg['idle_timeout']}, {via})", **cause)
    if kind == "wait" and not timed_out:
        world.violate("C14.timeout-lost", f"step suspended at t={susp_t} with timeout={spec['D']}; no TimeoutError by t={world.clock.t} "
                      f"(idle_timeout={world.cfg['idle_timeout']}, {via})", **cause)
    if final is None or final[0] == "running":
        world.violate("C14.running-forever", f"handler is {final} at quiescence (t={world.clock.t}); timer {kind} D={spec['D']}, {via}", **cause)
    world._nt = via != "none"


def run(tape):
    return engine_common.simulate(tape, CFG, check, gen=gen, scenario=scenario, nontrivial=lambda w, s, o: w._nt, world_cls=ServerWorld)
