"""C14 — pending retries and waiter timeouts survive idle release and restart."""
from __future__ import annotations

import asyncio

from sim.sqlite_seam import SEAM
from worlds import events as EV
from worlds import engine_common
from worlds.server import ServerWorld
from props.c15 import _read_status

ID = "C14"
LEVEL = "exploration"
QUICK_RUNS = 600
THOROUGH_SECONDS = 600
RULE_TEXT = ("Server stack (SQLite or memory store). Program: one step that either fails its first attempt under "
             "retry_policy(wait=wait_fixed(D)) or suspends in ctx.wait_for_event(timeout=T), D,T in {2,4,8,16}, and nothing else to "
             "do, optionally twice in a row (second retry / second wait) and optionally next to a sibling step whose body ends at the "
             "instant the timer is due; idle_timeout drawn below/equal/between (1.5x)/above the timer; optionally a process crash + restart at a tape-chosen instant "
             "while the timer is pending (SQLite only). After max(D,T)+idle_timeout+slack of virtual time (simulator quiescence, "
             "gap 500 s) the retry attempt must have run / the waiting step must have received TimeoutError, and the handler must be "
             "completed. Non-trivial: the run was released or restarted while the timer was pending; distinct = (timer kind, D/T vs "
             "idle_timeout relation, via, trace shape).")
COMPONENTS = {"real": ["server runtime stack, IdleReleaseDecorator release/reload, PersistenceDecorator restart, engine scheduled wake-ups"],
              "stub": ["llama_index_instrumentation"], "sim": ["loop, clocks, SQLite seam (crash), incarnations"]}
ASSUMPTIONS = ["'really elapsed' is virtual time; quiescence gap (500 s) is far above every timer in the program"]
EXPECTED_PROBES = ["chained-timers-idle_timeout-between", "released-with-timer-pending", "restarted-with-timer-pending", "timer-fired-in-memory"]
LEVEL_TEXT = "Seeded exploration of timer/idle_timeout relations and restart instants; liveness judged only at simulator quiescence."
LEVEL_NOTE = "Trusted: simulator loop/clocks, crash fence."

CFG = {"driver": "result", "backends": ["sqlite", "sqlite", "memory"], "quiesce_gap": 500.0, "grid": [0, 0, 1]}


def gen(tape, cfg):
    kind = tape.choice(["retry", "wait"], "timer.kind")
    D = tape.choice([2, 4, 8, 16], "timer.d")
    chain = 2 if tape.chance(45, 100, "chain?") else 1          # two timers one after the other (second retry / second wait)
    if kind == "retry":
        steps = [{"name": "s0", "accepts": ["Start0"], "workers": 1, "sync": False,
                  "retry": {"retry": None, "wait": ("fixed", D), "stop": ("attempt", 4)}, "role": "step",
                  "scripts": {"Start0": [("work",), ("failpath", "ValueError", chain), ("ret", "stop")]}, "returns": [], "stop": True}]
    else:
        req = tape.chance(50, 100, "req")
        waits = [("wait", "Resp0", req, D, f"w{i}", False, "continue") for i in range(chain)]
        steps = [{"name": "s0", "accepts": ["Start0"], "workers": 1, "sync": False, "retry": None, "role": "step",
                  "scripts": {"Start0": [("work",)] + waits + [("ret", "stop")]},
                  "returns": [], "stop": True}]
    side = None
    if tape.chance(35, 100, "side?"):
        # a second step consuming the start event whose body ends at / next to the instant the first timer is due
        side = tape.choice([D, D, D + 1, D - 1], "side.sleep")
        steps.append({"name": "side", "accepts": ["Start0"], "workers": 1, "sync": False, "retry": None, "role": "step",
                      "scripts": {"Start0": [("sleep", side), ("ret", None)]}, "returns": [], "stop": False})
    return {"steps": steps, "types": [], "timeout": None, "driver": "result", "disable_validation": False, "timer": kind, "D": D,
            "chain": chain, "side": side}


async def scenario(world, spec):
    D = spec["D"]
    rel = world.tape.choice(["below", "equal", "between", "between", "above", "far-above"], "idle.rel")
    world.cfg["idle_timeout"] = float({"below": D / 2, "equal": D, "between": D * 1.5, "above": D * 2, "far-above": 400}[rel])
    restart = world.backend == "sqlite" and world.tape.chance(40, 100, "restart?")
    inc = world.new_incarnation()
    wf = inc.add_workflow("wf", spec)
    await inc.start()
    start = EV.Start0(uid=world.uid())
    await inc.call(inc.service.start_workflow(wf, "h1", start_event=start))
    out = {"rel": rel, "via": "none", "timer": spec["timer"]}
    if restart:
        x = world.tape.choice([0, 1, D / 2, D - 1, D - 0.5], "restart.at")
        await asyncio.sleep(max(0, x))
        st = _read_status(world)
        if st and st[0] == "running":
            world.trace.log("crash-request", at=x)
            SEAM.crash_now(1)
            await world.kill(inc)
            world.open_bodies.clear()
            inc = world.new_incarnation()
            inc.add_workflow("wf", spec)
            await inc.start()
            out["via"] = "restart"
            world.probe("restarted-with-timer-pending")
    await world.loop.quiesce()
    world.trace.log("quiescent", phase="end")
    out["final"] = _read_status(world)
    return out


def check(world, spec, outcome) -> None:
    recs = world.trace.recs
    kind = spec["timer"]
    n = spec["chain"]
    it = world.cfg["idle_timeout"]
    max_retry = max([f["retry"] for _, _, k, f in recs if k == "enter" and f["step"] == "s0"] or [0])
    n_timeouts = sum(1 for _, _, k, f in recs if k == "wait-timeout")
    fail_t = next((t for _, t, k, f in recs if k == "exit" and f["step"] == "s0" and str(f["exit"]).startswith("raised")), None)
    susp_t = next((t for _, t, k, f in recs if k == "exit" and f["step"] == "s0" and f["exit"] == "suspended"), None)
    released = [t for _, t, k, f in recs if k == "runner-exit"]
    idle_ann = [t for _, t, k, f in recs if k == "publish" and f["ev"] == "WorkflowIdleEvent"]
    via = outcome["via"]
    t_timer = (fail_t if kind == "retry" else susp_t)
    if t_timer is None:
        world._nt = False
        return
    # per timer of the chain: when did it start, when was it due, did its action happen, and was the control loop that owned it
    # still alive at the due instant?  A timer that is lost although nothing released or killed its loop before it was due is
    # not one of the recorded defects (those lose timers that are pending AT a release / restart).
    seq_done = next((q for q, t, k, f in recs if k == "publish" and f["ev"] in ("StopEvent", "WorkflowFailedEvent")), None)
    exits = [(q, t) for q, t, k, f in recs if k in ("runner-exit", "crash") and (seq_done is None or q < seq_done)]
    if kind == "retry":
        starts = [t for _, t, k, f in recs if k == "exit" and f["step"] == "s0" and str(f["exit"]).startswith("raised")][:n]
        acts = sorted(t for _, t, k, f in recs if k == "enter" and f["step"] == "s0" and f["retry"] >= 1)
    else:
        starts = [t for _, t, k, f in recs if k == "exit" and f["step"] == "s0" and f["exit"] == "suspended"][:n]
        acts = sorted(t for _, t, k, f in recs if k == "wait-timeout")
    lost_in_memory = False
    rel_in = []
    for i, ts in enumerate(starts):
        due = ts + spec["D"]
        ex = [t for _, t in exits if ts <= t <= due + 1e-9]
        if ex:
            rel_in.append(ex[0])
        if i >= len(acts) and not ex:
            lost_in_memory = True
            world.probe("timer-due-while-loop-alive-but-lost")
    if not rel_in and len(acts) >= len(starts):
        # every timer fired; a release after that (while the re-executed body runs) belongs to the early-release family
        rel_in = [t for _, t in exits if t >= t_timer]
    if lost_in_memory and via == "none":
        via = "in-memory"
    if via == "none" and rel_in:
        via = "idle-release"
        world.probe("released-with-timer-pending")
    if via == "none":
        world.probe("timer-fired-in-memory")
    if n == 2 and spec["D"] < it < 2 * spec["D"]:
        world.probe("chained-timers-idle_timeout-between")
    # root cause attribute: was the run released although the idle period it was released for had NOT lasted idle_timeout?
    # (the recorded defects release a run whose idleness has lasted idle_timeout while a timer is pending; a release before
    # that is a different failure)
    premature = False
    if via == "idle-release":
        t_rel = rel_in[0]
        last_idle = max([t for t in idle_ann if t <= t_rel] or [None], key=lambda x: -1 if x is None else x)
        premature = last_idle is not None and (t_rel - last_idle) < it - 1e-9
    final = outcome.get("final")
    cause = {"via": via, "timer": kind, "premature_release": premature}
    if kind == "retry" and max_retry < n:
        world.violate("C14.retry-lost", f"step failed at t={fail_t} with wait_fixed({spec['D']}) x{n}; only {max_retry} of {n} retries ran by t={world.clock.t} "
                      f"(idle_timeout={it}, {via})", **cause)
    if kind == "wait" and n_timeouts < n:
        world.violate("C14.timeout-lost", f"step suspended at t={susp_t} with timeout={spec['D']} x{n}; {n_timeouts} of {n} TimeoutErrors by t={world.clock.t} "
                      f"(idle_timeout={it}, {via})", **cause)
    if final is None or final[0] == "running":
        world.violate("C14.running-forever", f"handler is {final} at quiescence (t={world.clock.t}); timer {kind} D={spec['D']} x{n}, {via}", **cause)
    world._nt = via != "none"


def run(tape):
    return engine_common.simulate(tape, CFG, check, gen=gen, scenario=scenario, nontrivial=lambda w, s, o: w._nt, world_cls=ServerWorld)
