"""C01 — a step never runs more invocations at once than its worker limit;
every invocation runs on a distinct worker slot in [0, num_workers)."""
from __future__ import annotations

from worlds.engine_common import simulate

ID = "C01"
LEVEL = "exploration"
QUICK_RUNS = 4000
THOROUGH_SECONDS = 600
RULE_TEXT = ("Seeded generation of workflow graphs (1-5 steps, num_workers 1..4, retries, fan-out via "
             "ctx.send_event/return, sync and async steps) and of every duration/tie on the tape; a run is "
             "non-trivial when some step had >=2 bodies executing simultaneously AND some event had to queue "
             "(PREPARING published); distinct = distinct abstract trace shape (sequence of kinds/steps/workers/"
             "states without times and uids)."
             " Collecting bodies may raise after a buffering collect_events (result = collected event + failure) or feed a second collect buffer before looking at either result.")
COMPONENTS = {"real": ["workflows.* (control loop, reducer, Context, handler, BasicRuntime, retry_policy)"],
              "stub": ["llama_index_instrumentation (no-op dispatcher)"],
              "sim": ["event loop + clock", "executor (sync steps run inline at a tape-chosen instant)"]}
ASSUMPTIONS = ["asyncio ready queue is FIFO (CPython contract); only durations, same-instant timer order and "
               "Task-set iteration order are scheduler freedom",
               "instrumentation dispatcher is a no-op stub"]
EXPECTED_PROBES = ["overlap>=2", "queued"]

CFG = {"driver": "finish", "p_retry": 40, "p_fail": 30, "fan_max": 4, "n_work": (1, 4), "n_types": (1, 4), "p_collect": 35, "p_collect_then_fail": 40, "p_collect2": 30, "p_wait": 12,
       "wait_timeouts": [None, 3, 6]}


def check(world, spec, outcome) -> None:
    workers = {s["name"]: s["workers"] for s in spec["steps"]}
    bodies: dict[str, set] = {}
    slots: dict[str, set] = {}
    max_overlap = 0
    queued = False
    for seq, t, kind, f in world.trace.recs:
        if kind == "enter":
            b = bodies.setdefault(f["step"], set())
            b.add(f["inv"])
            max_overlap = max(max_overlap, len(b))
            n = workers[f["step"]]
            if len(b) > n:
                world.violate("C01.body-overlap", f"step {f['step']} has {len(b)} bodies running, num_workers={n}",
                              seq, step_workers=n, over=len(b) - n)
            if len(b) > len(slots.get(f["step"], ())):
                world.violate("C01.slot-vs-body", f"step {f['step']}: {len(b)} bodies but only "
                              f"{len(slots.get(f['step'], ()))} RUNNING slots open", seq)
        elif kind == "exit":
            bodies.get(f["step"], set()).discard(f["inv"])
        elif kind == "publish" and f.get("ev") == "StepStateChanged":
            st = f["state"]
            if st == "PREPARING":
                queued = True
                continue
            try:
                wid = int(f["worker"])
            except ValueError:
                world.violate("C01.slot-range", f"worker id {f['worker']!r} is not an integer slot", seq)
                continue
            n = workers.get(f["step"], 0)
            open_ = slots.setdefault(f["step"], set())
            if st == "RUNNING":
                if not (0 <= wid < n):
                    world.violate("C01.slot-range", f"step {f['step']} RUNNING on slot {wid}, num_workers={n}", seq)
                if wid in open_:
                    world.violate("C01.slot-distinct", f"step {f['step']} slot {wid} assigned twice", seq)
                open_.add(wid)
                if len(open_) > n:
                    world.violate("C01.body-overlap", f"step {f['step']} has {len(open_)} RUNNING slots, num_workers={n}",
                                  seq, step_workers=n, over=len(open_) - n, via="slots")
            elif st == "NOT_RUNNING":
                open_.discard(wid)
    if max_overlap >= 2:
        world.probe("overlap>=2")
    if queued:
        world.probe("queued")
    world._c01_nt = max_overlap >= 2 and queued


def run(tape):
    return simulate(tape, CFG, check, nontrivial=lambda w, s, o: w._c01_nt)

LEVEL_TEXT = ("Seeded exploration of generated workflow graphs and completion orders on the real engine under a "
              "virtual-time loop; every body entry/exit and every published slot change is checked against "
              "num_workers. Sampling, not proof: a clean batch is evidence that no schedule in the sampled family "
              "exceeds the limit.")
LEVEL_NOTE = ("Trusted: the simulator loop (FIFO ready queue, virtual clock), the no-op instrumentation stub, "
              "the body interpreter's enter/exit logging.")
