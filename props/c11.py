"""C11 — replaying the recorded tick log reproduces the live run state."""
from __future__ import annotations

import json

import asyncio

from workflows.runtime.control_loop import rebuild_state_from_ticks

from worlds.engine import drive_resume, drive_standard, uid_of
from worlds.engine_common import simulate

ID = "C11"
LEVEL = "exploration"
QUICK_RUNS = 2000
THOROUGH_SECONDS = 600
RULE_TEXT = ("Generated workflows (fan-out, queues, retries incl. delay-based stop conditions and positive retry delays, "
             "collect_events, waiters with timeouts, external events) incl. resumed runs and finished contexts that are run again while they still hold work; after EVERY tick the live control-loop "
             "state is compared with rebuild_state_from_ticks(init_state, ticks so far) field by field (timestamps excluded). "
             "Every tick is one evaluation. Non-trivial: the run had >=10 ticks and at least one retry, queued event, "
             "collected event or waiter in its state; distinct = abstract trace shape.")
COMPONENTS = {"real": ["workflows.* engine: live reducer vs. rebuild_state_from_ticks, BasicRuntime tick log"],
              "stub": ["llama_index_instrumentation"], "sim": ["loop, clock"]}
ASSUMPTIONS = ["the comparison is between two computations the code defines as equal; no reference model is involved"]
EXPECTED_PROBES = ["end-of-run-compared", "retry-in-state", "queue-in-state", "collected-in-state", "waiter-in-state", "resumed-run", "finished-context-run-again"]
LEVEL_TEXT = ("Seeded exploration; differential oracle live-state vs replayed-state after every tick of every run; this is what "
              "ctx.to_dict() and running_steps() are computed from.")
LEVEL_NOTE = "Trusted: simulator loop; access to the live runner through the runner registry (subclass of _ControlLoopRunner, no behaviour change)."

CFG = {"driver": "finish", "p_retry": 50, "p_fail": 35, "p_delay_stop": 40, "retry_delays": [0, 1, 2, 3], "p_wait": 25,
       "p_collect": 50, "p_external": 30, "fan_max": 3, "wait_timeouts": [None, 3, 6, "default"]}


def _abs(state):
    out = {"is_running": state.is_running}
    for name in sorted(state.workers):
        w = state.workers[name]
        out[name] = {
            "queue": [(_u(a.event), a.attempts or 0, tuple(sorted(a.recovery_counts.items()))) for a in w.queue],
            "in_progress": sorted((_u(p.event), p.worker_id, p.attempts) for p in w.in_progress),
            "collected": {k: [_u(e) for e in v] for k, v in sorted(w.collected_events.items()) if v},
            "waiters": sorted((x.waiter_id, x.waiting_for_event.__name__, _u(x.resolved_event), x.timed_out,
                               bool(x.requirements) or x.has_requirements) for x in w.collected_waiters),
        }
    return out


def _u(ev):
    u = uid_of(ev)
    return str(u)


def setup(world, spec):
    world._c11 = {"ticks": 0, "flags": set(), "reported": set()}

    def after_tick(adapter, tick):
        rid = adapter.run_id
        runners = world.live_runners.get(rid) or []
        if not runners or rid in world.dead_runs:
            return
        live = runners[-1].state
        inner = adapter._decorated
        ticks = list(inner.replay())
        rebuilt = rebuild_state_from_ticks(inner.init_state, ticks)
        a, b = _abs(live), _abs(rebuilt)
        c = world._c11
        c["ticks"] += 1
        for name, w in a.items():
            if name == "is_running":
                continue
            if w["queue"]:
                c["flags"].add("queue-in-state")
            if any(x[1] for x in w["queue"]) or any(x[2] for x in w["in_progress"]):
                c["flags"].add("retry-in-state")
            if w["collected"]:
                c["flags"].add("collected-in-state")
            if w["waiters"]:
                c["flags"].add("waiter-in-state")
        if a == b and not c["reported"] and rid in world.handlers:
            _public_view(world, rid, rebuilt, len(ticks), tick)
        if a != b and not c["reported"]:
            from workflows.runtime.types.results import StepWorkerFailed
            from workflows.runtime.types.ticks import TickStepResult
            failed = isinstance(tick, TickStepResult) and any(isinstance(r, StepWorkerFailed) for r in tick.result)
            pol = next((st["retry"] for st in spec["steps"] if failed and st["name"] == tick.step_name), None)
            delay_stop = bool(pol) and "delay" in str(pol["stop"])
            for key in a:
                if a[key] != b[key]:
                    fields = [key] if key == "is_running" else [f for f in a[key] if a[key][f] != b[key][f]]
                    for fld in fields:
                        if fld not in c["reported"]:
                            c["reported"].add(fld)
                            world.violate("C11.diverge", f"after tick #{len(ticks)} ({type(tick).__name__}) field {fld} of "
                                          f"{key}: live={a[key] if key == 'is_running' else a[key][fld]} replayed="
                                          f"{b[key] if key == 'is_running' else b[key][fld]}",
                                          tick=type(tick).__name__, failed_attempt=failed, delay_based_stop=delay_stop)
                            break
                    if c["reported"]:
                        break
    world.after_tick_hooks.append(after_tick)

    def at_exit(runner):
        # the run's control loop is leaving: whatever it applied to its state must be in the journal (a tick that ended the run
        # by raising is applied too)
        rid = runner.adapter.run_id
        if rid in world.dead_runs or world._c11["reported"]:
            return
        import sys
        if isinstance(sys.exc_info()[1], (asyncio.CancelledError, GeneratorExit)):
            return          # aborted from outside (hard cancel): nothing was being applied
        inner = runner.adapter._decorated
        try:
            ticks = list(inner.replay())
            rebuilt = rebuild_state_from_ticks(inner.init_state, ticks)
        except Exception:  # noqa: BLE001
            return
        a, b = _abs(runner.state), _abs(rebuilt)
        world._c11["end_compared"] = True
        if a != b:
            key = next(k for k in a if a[k] != b.get(k))
            world._c11["reported"].add("end:" + key)
            world.violate("C11.diverge", f"at the end of the run ({len(ticks)} journaled ticks) {key}: live={a[key]} replayed={b.get(key)}",
                          tick="end-of-run", failed_attempt=False, delay_based_stop=False)
    world.runner_exit_hooks.append(at_exit)


def _public_view(world, rid, rebuilt, n_ticks, tick) -> None:
    """What the handler's context shows through the public API (ctx.to_dict(), which reads ExternalContext._state) must be the
    replay of the recorded ticks. Asked after EVERY tick on the same live handler, as a status poller or a periodic checkpointer
    does. Both sides go through the same serialize -> deserialize normalisation so that only content can differ."""
    from workflows.context.context_types import SerializedContext
    from workflows.context.serializers import JsonSerializer
    from workflows.runtime.types.internal_state import BrokerState
    handler, wf = world.handlers[rid]
    ser = JsonSerializer()
    c = world._c11
    try:
        d = handler.ctx.to_dict()
    except Exception as e:  # noqa: BLE001
        c["reported"].add("public")
        world.violate("C11.public-view", f"handler.ctx.to_dict() after tick #{n_ticks} ({type(tick).__name__}) raised {type(e).__name__}: {e}", how="raises")
        return
    c["flags"].add("public-view-polled")
    try:
        got = _abs(BrokerState.from_serialized(SerializedContext.from_dict_auto(json.loads(json.dumps(d, default=str))), wf, ser))
        want = _abs(BrokerState.from_serialized(rebuilt.to_serialized(ser), wf, ser))
    except Exception:  # noqa: BLE001
        return      # (de)serialisation problems are C12's subject
    if got != want:
        key = next(k for k in want if want[k] != got.get(k))
        c["reported"].add("public")
        world.violate("C11.public-view", f"after tick #{n_ticks} ({type(tick).__name__}) handler.ctx.to_dict() shows {key}={got.get(key)} but the replay of the "
                      f"recorded ticks gives {want[key]}", how="differs")


async def drive_rerun(world, spec):
    """the run is ended early (Fin sent while work is in flight), then the SAME context is run again with a new StartEvent: the second
    run starts from a state that still holds the first run's queued / in-progress work"""
    import asyncio as aio
    from worlds import events as EV
    from worlds.engine import _finish, build_workflow
    wf = build_workflow(spec, world)
    start = EV.Start0(uid=world.uid())
    world.trace.log("emit", uid=start.uid, ev="Start0", by="ext", via="start", target=None, parent=-1, inv=0)
    h1 = wf.run(start_event=start, run_id="run1")
    world.handlers["run1"] = (h1, wf)
    c1 = aio.ensure_future(world.consume(h1, "c1"))
    d = sum(world.tape.choice(world.cfg["grid"], "fin1.at") for _ in range(world.tape.rng_int(1, 3, "fin1.n")))
    sl = aio.ensure_future(aio.sleep(d)) if d else aio.ensure_future(aio.sleep(0))
    await aio.wait([sl, h1._result_task], return_when=aio.FIRST_COMPLETED)
    sl.cancel()
    if not h1.is_done():
        fin = EV.Fin(uid=world.uid())
        world.trace.log("emit", uid=fin.uid, ev="Fin", by="ext", via="ext", target=None, parent=-1, inv=0)
        h1.ctx.send_event(fin)
    q = world.loop.quiesce()
    await aio.wait([q, h1._result_task], return_when=aio.FIRST_COMPLETED)
    if not h1.is_done() or h1._result_task.cancelled() or h1._result_task.exception() is not None:
        return await _finish(world, spec, h1, c1, [], {"handler": h1, "wf": wf, "rerun": False})
    await aio.wait([c1], timeout=50)
    world.probe("finished-context-run-again")
    world.open_bodies.clear()
    start2 = EV.Start0(uid=world.uid())
    world.trace.log("emit", uid=start2.uid, ev="Start0", by="ext", via="start", target=None, parent=-1, inv=0)
    h2 = wf.run(ctx=h1.ctx, start_event=start2, run_id="run2")
    world.handlers["run2"] = (h2, wf)
    c2 = aio.ensure_future(world.consume(h2, "c2"))
    return await _finish(world, spec, h2, c2, [], {"handler": h2, "wf": wf, "rerun": True})


def scenario(world, spec):
    k = world.tape.draw(5, "resume?")
    if k == 0:
        world.probe("resumed-run")
        return drive_resume(world, spec)
    if k == 1:
        return drive_rerun(world, spec)
    return drive_standard(world, spec)


def check(world, spec, outcome) -> None:
    c = world._c11
    for f in c["flags"]:
        world.probe(f)
    if c.get("end_compared"):
        world.probe("end-of-run-compared")
    world._nt = c["ticks"] >= 10 and bool(c["flags"])
    world._evals = c["ticks"]


def run(tape):
    res = simulate(tape, CFG, check, setup=setup, scenario=scenario, nontrivial=lambda w, s, o: w._nt, check_on_cap=True)
    return res
