"""C04 — every run ends once, and its stream ends with the matching terminal event."""
from __future__ import annotations

import asyncio

from worlds import events as EV
from worlds.engine import build_workflow
from worlds.engine_common import simulate

ID = "C04"
LEVEL = "exploration"
QUICK_RUNS = 9000
THOROUGH_SECONDS = 600
RULE_TEXT = ("Generated workflows ending by result, step failure (with/without retries), cancel_run at a tape-chosen "
             "instant, workflow timeout, plus engine-side failures (retry predicate raising, non-Event return, custom "
             "BaseException in a step), steps that collect_events / wait_for_event before returning, progress loops that write to the "
             "stream and yield repeatedly, user-written (unhashable dataclass) retry policies; a stream_events(expose_internal=True) "
             "consumer runs alongside. Late stream writes are attributed: written before or after the control loop was handed the "
             "run-ending completion (task-done observation). Non-trivial: the "
             "run ended while >=1 other step body was still executing or >=1 stream write was in flight; distinct = "
             "(outcome kind, abstract trace shape).")
COMPONENTS = {"real": ["workflows.* engine incl. WorkflowHandler.stream_events and BasicRuntime publish queue"],
              "stub": ["llama_index_instrumentation"], "sim": ["loop, clock, executor"]}
ASSUMPTIONS = ["SystemExit/KeyboardInterrupt/CancelledError are never raised by generated steps (asyncio gives them loop-stopping semantics)",
               "stream-hang is judged only at simulator quiescence after the handler is done"]
EXPECTED_PROBES = ["cancelled-body-with-slow-cleanup", "run-id-reuse-refused", "outcome:result", "outcome:failed", "outcome:cancelled", "outcome:timeout", "ended-with-bodies-running"]
LEVEL_TEXT = ("Seeded exploration over outcome kinds and end-of-run races; oracle on the publish-side record (terminal "
              "event count/kind/position) and on consumer termination at quiescence.")
LEVEL_NOTE = "Trusted: simulator loop, recording adapter decorator."

CFG = {"exc_pool": ["ValueError", "SimStepError", "KeyError", "SimApiError"], "driver": "result", "p_retry": 40, "p_fail": 30, "p_cancel": 25, "timeouts": [None, None, 2, 4, 7],
       "p_pred_raises": 6, "p_nonevent": 4, "p_baseexc": 2, "p_stream": 50, "p_ret_none": 10, "fan_max": 3,
       "p_collect": 45, "p_wait": 12, "p_ticker": 35, "p_user_policy": 30, "wait_timeouts": [None, 4, 10]}

TERMINAL = {"StopEvent", "Stop1", "WorkflowFailedEvent", "WorkflowCancelledEvent", "WorkflowTimedOutEvent"}


def check(world, spec, outcome) -> None:
    recs = world.trace.recs
    pubs = [(seq, f) for seq, t, kind, f in recs if kind == "publish"]
    terms = [(seq, f["ev"]) for seq, f in pubs if f["ev"] in TERMINAL]
    en = type(outcome.get("error")).__name__ if "error" in outcome else ""
    armc = {"PredicateBoom": "retry-predicate-raised", "SimBaseExc": "step-raised-BaseException"}.get(en, "none")
    if "error" in outcome or "result" in outcome:
        if "result" in outcome:
            want, okind = {"StopEvent", "Stop1"}, "result"
        else:
            en = type(outcome["error"]).__name__
            if en == "WorkflowTimeoutError":
                want, okind = {"WorkflowTimedOutEvent"}, "timeout"
            elif en == "WorkflowCancelledByUser":
                want, okind = {"WorkflowCancelledEvent"}, "cancelled"
            else:
                want, okind = {"WorkflowFailedEvent"}, "failed"
        world.probe("outcome:" + okind)
        world._okind = okind
        if len(terms) != 1:
            world.violate("C04.terminal-count", f"run ended ({okind}: {outcome.get('error')!r}) with {len(terms)} terminal events published: {terms}",
                          n=len(terms) if len(terms) < 2 else "many", outcome=okind, engine_side=armc)
        if terms:
            last_seq, last_ev = terms[-1]
            if last_ev not in want:
                world.violate("C04.terminal-kind", f"outcome {okind} but terminal event is {last_ev}", last_seq, outcome=okind, got=last_ev)
            later = [(seq, f) for seq, f in pubs if seq > terms[0][0]]
            if later:
                # root cause: was the late event written by a body that was still allowed to run AFTER the control loop had
                # learned that the run is over (the stop-returning worker's completion was handed to the loop / the ending
                # tick was processed)?  A write made before that instant whose fire-and-forget task merely lost the race is
                # the recorded defect; a body that keeps executing past that instant is something else.
                end_seen = _end_observed_seq(recs, terms[0][0], okind)
                emit_seq = next((s_ for s_, _, k, f in recs if k == "emit" and f.get("via") == "stream" and f.get("uid") == later[0][1].get("uid")), None)
                late_body = bool(end_seen is not None and emit_seq is not None and emit_seq > end_seen)
                world.violate("C04.after-terminal", f"published after terminal event: {[f['ev'] for _, f in later][:4]}"
                              + (" — written by a step body that was still running after the loop had seen the run-ending completion" if late_body else ""),
                              terms[0][0], what=later[0][1]["ev"], outcome=okind, written_after_end_observed=late_body)
        if not outcome.get("consumer_done"):
            world.violate("C04.stream-hang", f"stream_events() consumer still blocked at quiescence after run ended ({okind})",
                          outcome=okind, engine_side=armc, terminal_published=bool(terms))
        # non-trivial: something was still in flight when the run ended
        end_seq = terms[0][0] if terms else recs[-1][0]
        open_b = set()
        for seq, t, kind, f in recs:
            if seq > end_seq:
                break
            if kind == "enter":
                open_b.add(f["inv"])
            elif kind == "exit":
                open_b.discard(f["inv"])
        if open_b:
            world.probe("ended-with-bodies-running")
        world._nt = bool(open_b)
    else:
        world._okind = "not-finished"
        world._nt = False
        world.probe("outcome:not-finished")


def _end_observed_seq(recs, term_seq, okind):
    """seq of the record at which the control loop learned the run is over: for a result, the task-done record of the worker
    whose StopEvent result tick precedes the terminal publish; otherwise the ending tick itself"""
    last_tick = None
    for seq, _, k, f in recs:
        if seq >= term_seq:
            break
        if k == "tick":
            last_tick = (seq, f)
    if last_tick is None:
        return None
    seq, f = last_tick
    if f.get("tick") != "step_result":
        return seq
    key = f"{f.get('step')}:{f.get('worker')}"
    done = [s_ for s_, _, k, g in recs if k == "task-done" and g.get("key") == key and s_ < seq]
    return done[-1] if done else seq


# run-id re-use arm: a first run finishes while nobody consumes its stream and its handler is still referenced; a second run is
# started on the same workflow instance under the SAME run id. Either the runtime refuses it, or the second run's consumer must see
# exactly that run's events, ending with its one terminal event.
async def scenario_reuse(world, spec):
    wf = build_workflow(spec, world)
    s1 = EV.Start0(uid=world.uid())
    world.trace.log("emit", uid=s1.uid, ev="Start0", by="ext", via="start", target=None, parent=-1, inv=0)
    h1 = wf.run(start_event=s1, run_id="run1")          # no consumer attached
    q = world.loop.quiesce()
    await asyncio.wait([q, h1._result_task], return_when=asyncio.FIRST_COMPLETED)
    out = {"first_done": h1.is_done(), "refused": None, "keep": h1}
    if not h1.is_done():
        return out
    mark = world.trace.log("reuse-start")
    s2 = EV.Start0(uid=world.uid())
    try:
        h2 = wf.run(start_event=s2, run_id="run1")
    except Exception as e:  # noqa: BLE001
        out["refused"] = f"{type(e).__name__}"
        world.probe("run-id-reuse-refused")
        return out
    world.probe("run-id-reuse-accepted")
    world.trace.log("emit", uid=s2.uid, ev="Start0", by="ext", via="start", target=None, parent=-1, inv=0)
    consumer = asyncio.ensure_future(world.consume(h2, "c2"))
    q2 = world.loop.quiesce()
    await asyncio.wait([q2, h2._result_task], return_when=asyncio.FIRST_COMPLETED)
    if not consumer.done():
        q3 = world.loop.quiesce()
        await asyncio.wait([q3, consumer], return_when=asyncio.FIRST_COMPLETED)
    out.update(mark=mark, second_done=h2.is_done(), consumer_done=consumer.done())
    consumer.cancel()
    return out


def check_reuse(world, spec, outcome) -> None:
    world._nt = bool(outcome and outcome.get("first_done"))
    if not outcome or not outcome.get("first_done") or outcome.get("refused") or "mark" not in outcome:
        return
    mark = outcome["mark"]
    pubs = [f["ev"] for seq, _, k, f in world.trace.recs if k == "publish" and seq > mark]
    seen = [f["ev"] for seq, _, k, f in world.trace.recs if k == "consume" and f.get("c") == "c2"]
    terms_seen = [e for e in seen if e in TERMINAL]
    if outcome.get("second_done") and (seen != pubs or len(terms_seen) != 1 or seen[-1:] != terms_seen):
        world.violate("C04.stream-view", f"second run under a re-used run id: its consumer saw {seen[:6]}{'...' if len(seen) > 6 else ''} ({len(terms_seen)} terminal events) "
                      f"but the run published {pubs[:6]}{'...' if len(pubs) > 6 else ''}", how="reused-run-id")
    elif outcome.get("second_done") and not outcome.get("consumer_done"):
        world.violate("C04.stream-hang", "stream_events() consumer of the second run (re-used run id) still blocked at quiescence", outcome="reuse", engine_side="none",
                      terminal_published=True)


def gen(tape, cfg):
    from worlds.engine import gen_spec
    spec = gen_spec(tape, cfg)
    for st in spec["steps"]:
        if not st.get("sync") and tape.chance(12, 100, "slow-cancel?"):
            st["slow_cancel"] = tape.choice([1, 2], "slow-cancel.d")
    return spec


def gen_handlers(tape, cfg):
    # programs with @catch_error handlers, recovery budgets and lineages that re-enter a handler (C08's generator), judged by this
    # property's rules: however a failure is routed or a budget runs out, the run ends once, with the matching terminal event
    from props import c08
    return c08.gen(tape, cfg)


def run(tape):
    arm = tape.draw(12, "c04.arm")
    if arm in (1, 2):
        return simulate(tape, dict(CFG, driver="finish", p_cancel=0, timeouts=[None]), check, gen=gen_handlers, nontrivial=lambda w, s, o: w._nt)
    if arm == 0:
        return simulate(tape, dict(CFG, p_cancel=0, timeouts=[None], p_baseexc=0, p_pred_raises=0), check_reuse, scenario=scenario_reuse, nontrivial=lambda w, s, o: w._nt)
    res = simulate(tape, CFG, check, gen=gen, nontrivial=lambda w, s, o: w._nt)
    return res
