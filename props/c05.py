"""C05 — retry budgets count attempts and elapsed time correctly."""
from __future__ import annotations

from worlds import events as EV
from worlds.engine_common import simulate
from worlds.policies import ref_retryable, ref_stop, ref_wait_exact
from worlds.retry_world import attempts_of, deliveries, gen_retry_spec, stop_kinds

ID = "C05"
LEVEL = "exploration"
QUICK_RUNS = 3000
THOROUGH_SECONDS = 600
RULE_TEXT = ("One failing step under composed policies (stop_after_attempt 0..5, stop_after_delay, stop_before_delay, "
             "stop_any/all, retry_if_* with any/all, fixed waits), exception sequences, body durations on a grid that makes "
             "elapsed time cross the delay budget at different attempts, clock origins (monotonic vs epoch) drawn per run, "
             "two runtimes (BasicRuntime get_now / epoch-based get_now as a durable runtime would have), optional "
             "@catch_error handler to observe StepFailedEvent. Model = independent evaluation of the documented policy "
             "semantics on virtual elapsed time. Non-trivial: >=2 executions and a stop/retry decision that depends on "
             "elapsed time or exception class; distinct = (policy kinds, decisions, clock arm)."
             " Contended arm: in 35% a sibling step without policy consumes the same event type (must run exactly once per event, retry_number 0). 15% of the policies carry an extra generous stop_after_delay given as a timedelta of 1-3 days, which must change nothing.")
COMPONENTS = {"real": ["workflows.* engine, retry_policy"], "stub": ["llama_index_instrumentation"], "sim": ["loop, clocks (distinct monotonic/wall origins)"]}
ASSUMPTIONS = ["'really elapsed' = virtual elapsed time t; decisions within 1e-9 of a delay boundary are exempt",
               "no wall-clock step faults are injected in this check"]
EXPECTED_PROBES = ["contended-arm", "retry-redelivered", "fresh-event-waited-in-queue", "retried", "gave-up", "delay-stop-decided", "epoch-arm", "basic-arm", "handler-saw-StepFailedEvent"]
LEVEL_TEXT = ("Seeded exploration of policy compositions x failure patterns x clock configurations; every retry/stop decision "
              "of the run is compared with an independent reference evaluation.")
LEVEL_NOTE = "Trusted: simulator clocks, reference policy semantics in worlds/policies.py (written from the docstrings and the statement)."

CFG = {"driver": "result", "grid": [0, 1, 1, 2, 3], "p_handler": 40, "p_contend": 45}


def gen(tape, cfg):
    return gen_retry_spec(tape, cfg)


def setup(world, spec):
    world.cfg["epoch_now"] = bool(world.tape.draw(2, "epoch-now"))


def check(world, spec, outcome) -> None:
    recs = world.trace.recs
    pol = next(st for st in spec["steps"] if st["name"] == "s0")["retry"]
    arm = "epoch-now" if world.cfg.get("epoch_now") else "basic-runtime-now"
    world.probe("epoch-arm" if world.cfg.get("epoch_now") else "basic-arm")
    world._nt = False
    world._shape_extra = None
    dels = deliveries(recs)
    contended = bool(spec.get("contended"))
    if contended:
        world.probe("contended-arm")
        _probe_contention(world, recs)
    for uid, atts in dels.items():
        _check_delivery(world, pol, arm, uid, atts, recs, contended)
    if spec.get("sibling"):
        world.probe("sibling-consumer-of-the-same-event")
        for uid, atts in deliveries(recs, "sib").items():
            bad = [a for a in atts if a["enter"]["retry"] != 0 or a["enter"]["lastexc"] is not None]
            if len(atts) != 1 or bad:
                world.violate("C05.sibling-retried", f"step sib (no retry policy, never fails) was executed {len(atts)} times for event uid {uid}, "
                              f"retry_info {[(a['enter']['retry'], a['enter']['lastexc']) for a in atts]}: another step's retries reached it", atts[-1]["seq"])


def _probe_contention(world, recs) -> None:
    """a retry (attempts >= 1) or a fresh event that had to wait in the step queue"""
    for _, _, kind, f in recs:
        if kind == "tick" and f.get("tick") == "add_event" and f.get("attempts"):
            world.probe("retry-redelivered")
    starts = {}
    for _, t, kind, f in recs:
        if kind == "emit" and f.get("ev") == "E0":
            starts[f["uid"]] = t
        elif kind == "enter" and f["step"] == "s0" and f["retry"] == 0 and f["uid"] in starts and t > starts[f["uid"]] + 1e-9:
            world.probe("fresh-event-waited-in-queue")


def _check_delivery(world, pol, arm, uid, atts, recs, contended) -> None:
    if not atts:
        return
    cause_extra = {"contended": True} if contended else {}
    t_first = atts[0]["t0"]
    n_exec = len(atts)
    dep = False
    for i, a in enumerate(atts, start=1):
        ef = a["enter"]
        # retry_info
        if ef["retry"] != i - 1:
            world.violate("C05.retry-info", f"uid {uid} attempt {i}: retry_info().retry_number={ef['retry']}, expected {i - 1}", a["seq"], field="retry_number", **cause_extra)
        if i == 1:
            if ef["lastexc"] is not None:
                world.violate("C05.retry-info", f"uid {uid}: first attempt has a last_exception", a["seq"], field="last_exception-first", **cause_extra)
        else:
            prev = atts[i - 2]["exit"]
            if prev.startswith("raised:"):
                if ef["lastexc"] != prev.split(":", 1)[1] or not str(ef["lastmsg"]).endswith(f"f{i - 2}") and "'" not in str(ef["lastmsg"]):
                    world.violate("C05.retry-info", f"uid {uid} attempt {i}: last_exception={ef['lastexc']}({ef['lastmsg']}), previous attempt raised {prev}", a["seq"], field="last_exception", **cause_extra)
        if not a["exit"].startswith("raised:"):
            continue
        exc = EV.EXCS[a["exit"].split(":", 1)[1]](f"s0/{uid}/f{i - 1}")
        elapsed = a["t1"] - t_first
        retryable = ref_retryable(pol["retry"], exc)
        exact = ref_wait_exact(pol["wait"], i)
        stop = ref_stop(pol["stop"], i, elapsed, exact)
        retried = i < n_exec
        if retryable is None or (retryable and stop is None):
            continue
        expect = bool(retryable) and not stop
        sk = stop_kinds(pol["stop"])
        if "delay" in sk or pol["retry"] is not None:
            dep = True
        if "delay" in sk:
            world.probe("delay-stop-decided")
        if not retried and expect and contended and _run_ended_before(recs, a["seq"], pol, i):
            continue   # the run was ended by another delivery's failure before this retry could start
        if retried and not expect:
            world.violate("C05.attempt-count" if "delay" not in sk else "C05.delay-budget",
                          f"uid {uid} attempt {i} failed with {a['exit']} after {elapsed}s; policy {pol} must stop, but the step was retried",
                          a["seq"], decision="over-retried", clock=arm, **cause_extra)
        if not retried and expect:
            world.violate("C05.attempt-count" if "delay" not in sk else "C05.delay-budget",
                          f"uid {uid} attempt {i} failed with {a['exit']} after {elapsed}s real elapsed; policy {pol} permits a retry, but the engine gave up",
                          a["seq"], decision="gave-up-early", clock=arm, **cause_extra)
    world.probe("retried" if n_exec > 1 else "gave-up")
    # reported attempts / elapsed
    last_fail = [a for a in atts if a["exit"].startswith("raised:")]
    for seq, t, kind, f in recs:
        rep = None
        if kind == "publish" and f["ev"] == "WorkflowFailedEvent" and f.get("step") == "s0" and str(f.get("msg", "")).startswith(f"s0/{uid}/"):
            rep = ("WorkflowFailedEvent", f["attempts"], f["elapsed"])
        elif kind == "step-failed-event" and f["step"] == "s0" and f.get("in_uid") == uid:
            rep = ("StepFailedEvent", f["attempts"], f["elapsed"])
            world.probe("handler-saw-StepFailedEvent")
        if rep and last_fail:
            name, attempts, el = rep
            if attempts != len(last_fail):
                world.violate("C05.reported-attempts", f"uid {uid}: {name}.attempts={attempts}, real executions={len(last_fail)}", seq, event=name, **cause_extra)
            real = last_fail[-1]["t1"] - t_first
            if abs(el - real) > 1e-6:
                world.violate("C05.reported-elapsed", f"uid {uid}: {name}.elapsed_seconds={el}, really elapsed {real}", seq, event=name, clock=arm, **cause_extra)
    if n_exec >= 2 and dep:
        world._nt = True
    if world._shape_extra is None:
        world._shape_extra = (stop_kinds(pol["stop"]), n_exec, arm)


def _run_ended_before(recs, seq, pol, i) -> bool:
    """did the run reach a terminal event (failure of another delivery, timeout...) after record `seq`?  then a missing retry proves nothing"""
    return any(k == "publish" and f["ev"] in ("WorkflowFailedEvent", "WorkflowCancelledEvent", "WorkflowTimedOutEvent", "StopEvent") and s_ > seq
               for s_, _, k, f in recs)


def run(tape):
    res = simulate(tape, CFG, check, gen=gen, setup=setup, nontrivial=lambda w, s, o: w._nt, check_on_cap=True)
    return res
