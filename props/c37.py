"""C37 — llamactl never activates a profile the user did not pick in that environment."""
from __future__ import annotations

import asyncio
import os

from worlds.simple import simulate_simple
from worlds.stores import TmpDir

ID = "C37"
LEVEL = "exploration"
QUICK_RUNS = 1500
THOROUGH_SECONDS = 600
RULE_TEXT = ("Seeded sequences (5-30 ops) of llamactl configuration operations through EnvService/AuthService/ConfigManager with "
             "LLAMACTL_CONFIG_DIR in a temp dir and a FRESH ConfigManager per operation (each CLI command is its own process): "
             "create_or_update_environment, switch_environment, delete_environment, create_profile_from_token, set_current_profile, "
             "select_any_profile, update_profile (rename / change project / move to another environment), delete_profile, with the "
             "same profile names reused across environments. Model: environments, profiles, current environment, and the set of "
             "(environment, profile) pairs selected or created while that environment was current. No schedule or clock is involved: "
             "claimed as history exploration with process restart only. Non-trivial: >=2 environments existed and one profile name "
             "existed in >=2 environments; distinct = op-kind sequence.")
COMPONENTS = {"real": ["llamactl ConfigManager (stdlib sqlite3, real file, its own migrations), EnvService, AuthService"],
              "stub": ["jwt, cryptography, truststore (name-only; never called)"], "sim": ["op generator, model"]}
ASSUMPTIONS = ["network calls (probe/auto-update/delete_api_key) are not part of the generated operations"]
EXPECTED_PROBES = ["same-name-in-two-envs", "delete-current-environment", "switch-environment", "profile-moved"]
LEVEL_TEXT = "Seeded exploration of operation histories against a small model of what the user picked per environment."
LEVEL_NOTE = "Trusted: the model in this file."

CFG = {}
ENVS = ["https://e1.example", "https://e2.example"]
NAMES = ["pa", "pb"]


def run(tape):
    nops = tape.rng_int(5, 30, "nops")
    td = TmpDir()
    old = os.environ.get("LLAMACTL_CONFIG_DIR")
    os.environ["LLAMACTL_CONFIG_DIR"] = td.path

    async def scenario(world):
        from llama_agents.cli.config._config import ConfigManager
        from llama_agents.cli.config.auth_service import AuthService
        from llama_agents.cli.config.env_service import EnvService
        from llama_agents.cli.config.schema import DEFAULT_ENVIRONMENT, Environment
        DEFAULT = DEFAULT_ENVIRONMENT.api_url
        known_envs = {DEFAULT}
        profiles: dict[tuple, str] = {}     # (env, name) -> id
        picked: set = set()                 # (env, name) selected/created while env was current
        cur_env = [DEFAULT]
        ops = []

        def services():
            cm = ConfigManager()             # a new process for every command
            es = EnvService(lambda: cm)
            return cm, es, es.current_auth_service()

        def check(tag):
            cm, es, auth = services()
            env = es.get_current_environment().api_url
            if env not in known_envs and env != DEFAULT:
                world.violate("C37.unknown-env", f"[{tag}] current environment {env} is not a known environment (known {sorted(known_envs)}); ops {ops}")
            active = auth.get_current_profile()
            if active is not None:
                key = (env, active.name)
                if active.api_url != env or key not in profiles:
                    world.violate("C37.unselected-profile", f"[{tag}] active profile {active.name}@{active.api_url} is not a profile of the current environment {env}", how="foreign")
                elif (env, active.id) not in picked:
                    world.violate("C37.unselected-profile", f"[{tag}] active profile {key} was never selected or created while {env} was current "
                                  f"(picked {sorted(picked)}); ops {ops}", how="never-picked", after=tag, moved=bool(world.probes.get("profile-moved")))
            world.trace.log("op", op=tag)

        for i in range(nops):
            if world.violations:
                break
            op = tape.choice(["env_add", "env_switch", "env_switch", "env_delete", "p_create", "p_create", "p_select", "p_select_any", "p_update", "p_update", "p_delete",
                              "p_rename_elsewhere", "p_rename_elsewhere", "p_create_quiet", "env_switch_slash"], "op")
            cm, es, auth = services()
            env = es.get_current_environment().api_url
            cur_env[0] = env
            if op == "env_add":
                url = tape.choice(ENVS, "env")
                es.create_or_update_environment(Environment(api_url=url, requires_auth=False, min_llamactl_version=None))
                known_envs.add(url)
                ops.append(f"env_add {url}")
            elif op == "env_switch":
                url = tape.choice(sorted(known_envs - {DEFAULT}) or ENVS, "env")
                ops.append(f"env_switch {url}")
                try:
                    es.switch_environment(url)
                    world.probe("switch-environment")
                except ValueError:
                    pass
            elif op == "env_switch_slash":
                # the URL as a user may type it: with a trailing slash. Either it is refused, or a KNOWN environment becomes current
                url = tape.choice(sorted(known_envs - {DEFAULT}) or ENVS, "env") + "/"
                ops.append(f"env_switch {url}")
                world.probe("switch-with-trailing-slash")
                try:
                    es.switch_environment(url)
                except ValueError:
                    pass
            elif op == "p_rename_elsewhere":
                # a profile of ANOTHER environment is renamed (token refresh / key provisioning go through update_profile with
                # whatever profile object they hold)
                there = sorted(k for k in profiles if k[0] != env)
                if not there:
                    continue
                k = tape.choice(there, "which.else")
                prof = cm.get_profile(k[1], k[0])
                if prof is None:
                    continue
                new = tape.choice(NAMES, "newname.else")
                if (k[0], new) in profiles:
                    continue
                ops.append(f"p_rename_elsewhere {k}->{new}")
                world.probe("renamed-profile-of-other-environment")
                prof.name = new
                try:
                    cm.update_profile(prof)
                except Exception:  # noqa: BLE001
                    continue
                profiles[(k[0], new)] = profiles.pop(k)
            elif op == "env_delete":
                url = tape.choice(ENVS + [DEFAULT], "env")
                ops.append(f"env_delete {url}")
                if url == env:
                    world.probe("delete-current-environment")
                if es.delete_environment(url):
                    known_envs.discard(url)
                    for k in [k for k in profiles if k[0] == url]:
                        picked.discard((url, profiles.pop(k)))
            elif op == "p_create":
                name = tape.choice(NAMES, "name")
                ops.append(f"p_create {name}@{env}")
                try:
                    a = cm.create_profile(name, env, "proj1", api_key="k" + name)
                    cm.set_settings_current_profile(a.name)      # what create_profile_from_token does (its auto-name is derived from the token)
                    profiles[(env, name)] = a.id
                    picked.add((env, a.id))
                except ValueError:
                    pass
            elif op == "p_create_quiet":
                # a profile stored without being made the active one (ConfigManager.create_profile alone)
                # ... in any known environment: one created while its environment is current counts as "created while current"
                name = tape.choice(NAMES, "name")
                tenv = tape.choice(sorted(known_envs | {DEFAULT}), "quiet.env")
                ops.append(f"p_create_quiet {name}@{tenv}")
                try:
                    a = cm.create_profile(name, tenv, "proj1", api_key="q" + name)
                    profiles[(tenv, name)] = a.id
                    if tenv == env:
                        picked.add((env, a.id))
                    else:
                        world.probe("profile-created-in-non-current-environment")
                except ValueError:
                    pass
            elif op == "p_select":
                here = sorted(n for (e, n) in profiles if e == env)
                if not here:
                    continue
                name = tape.choice(here, "name")
                ops.append(f"p_select {name}@{env}")
                auth.set_current_profile(name)
                picked.add((env, profiles[(env, name)]))
            elif op == "p_select_any":
                ops.append(f"p_select_any@{env}")
                before = sorted(n for (e, n) in profiles if e == env)
                auth.select_any_profile()
                if before:
                    picked.add((env, profiles[(env, before[0])]))
            elif op == "p_update":
                here = sorted(k for k in profiles if k[0] == env)
                if not here:
                    continue
                k = tape.choice(here, "which")
                prof = auth.get_profile(k[1])
                if prof is None:
                    continue
                kind = tape.choice(["project", "rename", "move", "move", "move"], "upd")
                if kind == "project":
                    prof.project_id = "proj2"
                    ops.append(f"p_update project {k}")
                    auth.update_profile(prof)
                elif kind == "rename":
                    new = tape.choice(NAMES, "newname")
                    if (env, new) in profiles:
                        continue
                    ops.append(f"p_update rename {k}->{new}")
                    prof.name = new
                    try:
                        auth.update_profile(prof)
                    except Exception:  # noqa: BLE001
                        continue
                    profiles[(env, new)] = profiles.pop(k)
                else:
                    target = tape.choice(sorted(known_envs | {DEFAULT}), "moveto")
                    if target == env or (target, k[1]) in profiles:
                        continue
                    ops.append(f"p_update move {k}->{target}")
                    prof.api_url = target
                    try:
                        auth.update_profile(prof)
                    except Exception:  # noqa: BLE001
                        continue
                    world.probe("profile-moved")
                    profiles[(target, k[1])] = profiles.pop(k)      # picked stays keyed by (old env, id): never picked in the new env
            elif op == "p_delete":
                here = sorted(n for (e, n) in profiles if e == env)
                if not here:
                    continue
                name = tape.choice(here, "name")
                ops.append(f"p_delete {name}@{env}")
                await auth.delete_profile(name)
                picked.discard((env, profiles.pop((env, name), None)))
            names = [n for (_, n) in profiles]
            if len(known_envs) >= 2 and len(names) != len(set(names)):
                world.probe("same-name-in-two-envs")
            check(ops[-1].split()[0] if ops else "init")
        world._nt = bool(world.probes.get("same-name-in-two-envs"))
        return ops

    try:
        return simulate_simple(tape, CFG, scenario, None, nontrivial=lambda w, o: getattr(w, "_nt", False), sample=lambda w, o: {"ops": o})
    finally:
        if old is None:
            os.environ.pop("LLAMACTL_CONFIG_DIR", None)
        else:
            os.environ["LLAMACTL_CONFIG_DIR"] = old
        td.close()
