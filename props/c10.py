"""C10 — a waiting step resumes once, with a matching event or a timeout."""
from __future__ import annotations

from worlds.engine import drive_resume, drive_standard
from worlds.engine_common import simulate

ID = "C10"
LEVEL = "exploration"
QUICK_RUNS = 3000
THOROUGH_SECONDS = 600
RULE_TEXT = ("Generated workflows whose steps call ctx.wait_for_event (with/without requirements, waiter_event, explicit or "
             "derived waiter ids, timeout None/default/small); an external responder sends matching, non-matching, duplicate "
             "and early responses at tape-chosen instants; half of the runs are serialized (ctx.to_dict -> JSON) at a "
             "tape-chosen instant, abandoned and resumed with Context.from_dict, with responses sent right after the resume. "
             "Non-trivial: >=1 wait completed or timed out AND (>=2 responses raced it OR the run was resumed); distinct = "
             "abstract trace shape.")
COMPONENTS = {"real": ["workflows.* engine (wait_for_event, waiter reducer arms, BrokerState (de)serialisation, rehydration)"],
              "stub": ["llama_index_instrumentation"], "sim": ["loop, clock, responder"]}
ASSUMPTIONS = ["a retry of a step that failed after its wait completed may complete the same wait again (documented: 'allow retries to grab the waiter events')",
               "timeouts within 1e-9 of the deadline are ties and exempt"]
EXPECTED_PROBES = ["step-with-two-waits", "fallback-wait-after-timeout", "earlier-wait-replayed", "wait-completed", "wait-timeout", "resumed-with-pending-waiter", "second-matching-event-for-settled-waiter"]
LEVEL_TEXT = ("Seeded exploration of response timings around waiter registration, replay and resume; every value returned by "
              "wait_for_event and every TimeoutError is attributed to one wait (step, input uid, waiter id) and counted.")
LEVEL_NOTE = "Trusted: simulator loop, body logging around wait_for_event."

CFG = {"p_wait2": 35, "p_double_resume": 30, "driver": "finish", "p_wait": 70, "p_retry": 15, "p_fail": 10, "p_wait_self": 15, "p_resp_step": 15,
       "n_work": (1, 3), "n_types": (1, 3), "fan_max": 2, "wait_timeouts": [None, "default", 3, 6]}


def scenario(world, spec):
    if world.tape.draw(2, "resume?"):
        return drive_resume(world, spec)
    return drive_standard(world, spec)


def _roots(recs):
    """Attribute each waiter (step, actual waiter id) to a known root defect, from the processed-tick order only:
      'requeued-by-second-event' : while registered and already resolved / timed out, a further matching event re-queued the step (defect A)
      'rehydration-race'         : a deserialized waiter was hit by an event before its rehydration re-run re-registered it, or both
                                   the rehydration re-run and an event re-queued the step (defect B)
    anything else (e.g. a timeout applied to an already resolved waiter) is 'other'."""
    live: dict = {}      # (run, step, waiter id) -> {"type","req","hits":[kinds], "deser":bool, "orig":uid}
    roots: dict = {}     # (step, waiter id) -> root
    doubled: set = set()  # (step, input uid) executed twice side by side after a resume (rehydration re-run + carried replay)
    unacked: set = set()
    for seq, t, kind, f in recs:
        if kind == "enter":
            unacked.add((f["step"], f["uid"] if not isinstance(f["uid"], list) else tuple(f["uid"])))
        elif kind == "tick" and f["tick"] == "step_result":
            unacked.discard((f["step"], f["uid"] if not isinstance(f["uid"], list) else tuple(f["uid"])))
        if kind == "snapshot":
            src, dst = ("run2", "run3") if f.get("second") else ("run1", "run2")
            for (run, st, wid), w in list(live.items()):
                if run == src:
                    # an invocation of the waiting step that was in progress at the snapshot is re-queued by from_serialized
                    # ... and a re-queue caused by an earlier hit survives in the serialized queue / in_progress
                    # (second snapshot, taken before the resumed loop processed anything: the waiter is carried over as it was
                    # deserialized, still not rehydrated, together with whatever the first resume had already queued for it)
                    pre = (["inprogress"] if (st, w["orig"]) in unacked else []) + ["carried"] * min(1, len(w["hits"]))
                    live[(dst, st, wid)] = {"type": w["type"], "req": dict(w["req"]), "hits": pre, "deser": True, "orig": w["orig"],
                                            "rehydrated": False}
        elif kind == "tick":
            run = f["run"]
            if f["tick"] == "step_result":
                completed = any(r[0] == "result" for r in f["res"])
                for r in f["res"]:
                    if r[0] == "add_waiter":
                        k = (run, f["step"], r[1])
                        if k in live:
                            live[k]["rehydrated"] = True
                            live[k]["req"] = dict(r[4])
                        else:
                            live[k] = {"type": r[2], "req": dict(r[4]), "hits": [], "deser": False, "orig": f["uid"], "rehydrated": True}
                    elif r[0] == "del_waiter" and completed:
                        live.pop((run, f["step"], r[1]), None)
            elif f["tick"] == "waiter_timeout":
                w = live.get((run, f["step"], f["waiter"]))
                if w is not None:
                    w["hits"].append("timeout")
            elif f["tick"] == "add_event":
                for (r_, st, wid), w in live.items():
                    if r_ != run:
                        continue
                    if w["deser"] and not w["rehydrated"] and f.get("target") == st and f["uid"] == w["orig"]:
                        w["hits"].append("rehydrate")
                        w["saw_rehydrate"] = True
                        if "inprogress" in w["hits"] or "carried" in w["hits"]:
                            # the rehydration re-run comes on top of a replay of the same delivery that the snapshot already
                            # carried (in progress / queued): from here on two executions of one delivery are live (defect B)
                            doubled.add((st, w["orig"]))
                        if len(w["hits"]) >= 2:
                            roots[(st, wid)] = "rehydration-race"
                        continue
                    eff_req = {} if (w["deser"] and not w["rehydrated"]) else w["req"]
                    if w["type"] == f["ev"] and (not eff_req or eff_req.get("key") == f.get("key")):
                        if w["deser"] and not w["rehydrated"]:
                            roots[(st, wid)] = "rehydration-race"
                        elif w["hits"]:
                            if "rehydrate" in w["hits"]:
                                roots[(st, wid)] = "rehydration-race"
                            else:
                                roots.setdefault((st, wid), "requeued-by-second-event")
                        if "event" in w["hits"] or "timeout" in w["hits"]:
                            doubled.add(("__probe__", "second-matching-event-for-settled-waiter"))
                        w["hits"].append("event")
                        if w["deser"] and not w["rehydrated"]:
                            w["hit_unrehydrated"] = True
    # a rehydration race on one waiter executes its whole delivery twice side by side: every other wait of that delivery is affected
    for (run, st, wid), w in live.items():
        if roots.get((st, wid)) == "rehydration-race":
            doubled.add((st, w["orig"]))
    # a deserialized waiter with requirements for which the resumed run never even queued the rehydration re-run is not the recorded
    # race (there the re-run is queued and merely loses against an event): its requirements are gone for good
    for (run, st, wid), w in live.items():
        if w["deser"] and w.get("hit_unrehydrated") and not w.get("saw_rehydrate") and not w["rehydrated"] and w["req"] and \
                roots.get((st, wid)) == "rehydration-race":
            roots[(st, wid)] = "never-rehydrated"
    return roots, doubled


def check(world, spec, outcome) -> None:
    recs = world.live_recs()
    resumed = bool(outcome and outcome.get("resumed"))
    roots, doubled = _roots(recs)
    if ("__probe__", "second-matching-event-for-settled-waiter") in doubled:
        world.probe("second-matching-event-for-settled-waiter")
    actual_id: dict = {}
    for seq, t, kind, f in recs:
        if kind == "wait-call":
            actual_id[(f["step"], f["uid"], f["wid"])] = f["waiter"]

    def root_of(k):
        r = roots.get((k[0], actual_id.get(k)), "other")
        if r in ("other", "requeued-by-second-event") and (k[0], k[1]) in doubled:
            # whatever this wait shows, its delivery is being executed twice side by side since the resume
            return "rehydration-race"
        return r
    arm = "resumed" if resumed else "single-run"
    done_cnt: dict = {}     # (step, uid, wid) -> completions since last failure of that delivery
    to_cnt: dict = {}
    hist: dict = {}         # (step, uid, wid) -> last outcome ("event", uid) | ("timeout", None) of that wait in this delivery
    calls: dict = {}
    emits: dict = {}
    n_resp = 0
    completed = timed = False
    unacked: set = set()
    # the waits each execution (body entry, "inv") called, in order: a wait that is not the last one called is being REPLAYED
    # (the body went past it), which by design hands back the outcome it already had
    calls_of: dict = {}
    for seq, t, kind, f in recs:
        if kind == "wait-call":
            calls_of.setdefault(f["inv"], []).append(f["wid"])

    def outcome(seq, f, cur):
        """judge one wait outcome (wait-result / wait-timeout record)"""
        k = (f["step"], f["uid"], f["wid"])
        prev = hist.get(k)
        went_on = calls_of.get(f["inv"], [f["wid"]])[-1] != f["wid"]
        hist[k] = cur
        if prev is not None and went_on:
            if prev == cur:
                world.probe("earlier-wait-replayed")
                return
            if prev[0] != cur[0]:
                world.violate("C10.double-resume", f"wait {k} first ended with {prev[0]} and, replayed by a later execution of the same invocation, with {cur[0]} "
                              f"(uid {cur[1]})", seq, root=root_of(k), how=f"{prev[0]}-then-{cur[0]}")
            else:
                world.violate("C10.double-resume", f"wait {k} handed event uid {prev[1]} to one execution and uid {cur[1]} to a later replay of the same invocation",
                              seq, root=root_of(k), how="event-changed")
            return
        if cur[0] == "event":
            done_cnt[k] = done_cnt.get(k, 0) + 1
            if done_cnt[k] > 1:
                world.violate("C10.double-resume", f"wait {k} completed {done_cnt[k]} times (got uid {cur[1]})", seq, root=root_of(k), how="completed-twice")
            elif prev is not None and prev[0] == "timeout":
                world.violate("C10.double-resume", f"wait {k} first raised TimeoutError and later returned event uid {cur[1]}", seq, root=root_of(k), how="timeout-then-event")
        else:
            to_cnt[k] = to_cnt.get(k, 0) + 1
            if to_cnt[k] > 1:
                world.violate("C10.timeout-twice", f"wait {k} raised TimeoutError {to_cnt[k]} times", seq, root=root_of(k))
            elif prev is not None and prev[0] == "event":
                world.violate("C10.double-resume", f"wait {k} first returned event uid {prev[1]} and later raised TimeoutError", seq, root=root_of(k), how="event-then-timeout")

    for seq, t, kind, f in recs:
        if kind == "emit" and f.get("by") == "ext" and f["ev"] in ("Resp0", "Resp1"):
            emits[f["uid"]] = (f["ev"], f.get("key"), t)
            n_resp += 1
        elif kind == "wait-call":
            k = (f["step"], f["uid"], f["wid"])
            calls.setdefault(k, {"type": f["type"], "key": f["key"], "timeout": f["timeout"], "first_t": t, "ask": f["ask"]})
            if len(calls_of.get(f["inv"], [])) > 1:
                world.probe("step-with-two-waits")
        elif kind == "wait-result":
            k = (f["step"], f["uid"], f["wid"])
            completed = True
            outcome(seq, f, ("event", f["got"]))
            if f["gtype"] != calls.get(k, {}).get("type", f["gtype"]):
                world.violate("C10.wrong-type", f"wait {k} for {calls[k]['type']} returned {f['gtype']}", seq, root=root_of(k))
            if f["want"] is not None and f["key"] != f["want"]:
                world.violate("C10.requirement-violated", f"wait {k} requires key={f['want']}, got event uid={f['got']} key={f['key']}", seq, root=root_of(k))
        elif kind == "wait-timeout":
            timed = True
            outcome(seq, f, ("timeout", None))
            if len(calls_of.get(f["inv"], [])) > 1 and calls_of[f["inv"]][0] == f["wid"]:
                world.probe("fallback-wait-after-timeout")
        elif kind == "exit" and str(f["exit"]).startswith("raised"):
            # the delivery failed: a retry may legitimately complete its waits again
            for d in (done_cnt, to_cnt, hist):
                for k in list(d):
                    if k[0] == f["step"] and k[1] == f["uid"]:
                        d.pop(k)
        elif kind == "enter":
            unacked.add((f["step"], f["uid"] if not isinstance(f["uid"], list) else tuple(f["uid"])))
        elif kind == "tick" and f["tick"] == "step_result":
            unacked.discard((f["step"], f["uid"] if not isinstance(f["uid"], list) else tuple(f["uid"])))
        elif kind == "snapshot":
            # invocations not completed at the snapshot are legitimately re-executed after the resume
            for d in (done_cnt, to_cnt, hist):
                for k in list(d):
                    if (k[0], k[1]) in unacked:
                        d.pop(k)
    # waiter_event count: Ask0 published by the waiter path carries uid=-2 and key; count per (src step, key)
    _count_waiter_events(world, recs, calls, root_of)
    _spurious_timeouts(world, recs, root_of, actual_id)
    if completed:
        world.probe("wait-completed")
    if timed:
        world.probe("wait-timeout")
    if resumed and calls:
        world.probe("resumed-with-pending-waiter")
    world._nt = (completed or timed) and (n_resp >= 2 or resumed)


def _spurious_timeouts(world, recs, root_of, actual_id) -> None:
    """TimeoutError although a matching event was processed while the waiter was registered, more than eps before its deadline."""
    reg: dict = {}       # (run, step, waiter id) -> {deadline, type, req, matched_at}
    matched_before_deadline: dict = {}   # (run, step) -> list of (wid, t_match)
    for seq, t, kind, f in recs:
        if kind == "tick" and f["tick"] == "step_result":
            completed = any(r[0] == "result" for r in f["res"])
            for r in f["res"]:
                if r[0] == "add_waiter":
                    k = (f["run"], f["step"], r[1])
                    if k not in reg:
                        reg[k] = {"deadline": (t + r[3]) if r[3] is not None else None, "type": r[2], "req": dict(r[4]),
                                  "matched": None, "uid": f["uid"]}
                elif r[0] == "del_waiter" and completed:
                    reg.pop((f["run"], f["step"], r[1]), None)
        elif kind == "tick" and f["tick"] == "add_event":
            for k, w in reg.items():
                if k[0] == f["run"] and w["type"] == f["ev"] and (not w["req"] or w["req"].get("key") == f.get("key")):
                    if w["matched"] is None and (w["deadline"] is None or t < w["deadline"] - 1e-9):
                        w["matched"] = t
        elif kind == "wait-timeout":
            for k, w in reg.items():
                if k[0] == f.get("run") and k[1] == f["step"] and w["uid"] == f["uid"] and w["matched"] is not None and \
                        k[2] == actual_id.get((f["step"], f["uid"], f["wid"]), k[2]):
                    world.violate("C10.spurious-timeout", f"wait in {f['step']} (input {f['uid']}) raised TimeoutError although a matching "
                                  f"event was processed at t={w['matched']}, before the deadline {w['deadline']}", seq,
                                  root=root_of((f["step"], f["uid"], f["wid"])))


def _count_waiter_events(world, recs, calls, root_of) -> None:
    """waiter_event published exactly once per waiter id (per wait that asked), across replays and resume."""
    pubs: dict = {}
    for seq, t, kind, f in recs:
        if kind == "ask-publish":
            pubs.setdefault(f["askkey"], []).append(seq)
    for k, c in calls.items():
        if not c["ask"]:
            continue
        askkey = (c["key"] or f"any{k[1]}") + ("#w2" if str(k[2] or "").startswith("w2:") else "")
        n = len(pubs.get((k[0], askkey), []))
        if n > 1:
            world.violate("C10.waiter-event-count", f"waiter_event of wait {k} published {n} times", pubs[(k[0], askkey)][1], root=root_of(k))
        # n == 0 only matters if the waiter was really registered and the run went on: judged by C35/C02 style rules elsewhere


def setup(world, spec):
    def on_pub(seq, run_id, event):
        if type(event).__name__ == "Ask0" and getattr(event, "uid", 0) == -2:
            world.trace.log("ask-publish", askkey=(event.src, event.key), run=run_id)
    world.publish_hooks.append(on_pub)


def run(tape):
    return simulate(tape, CFG, check, scenario=scenario, setup=setup, nontrivial=lambda w, s, o: w._nt)
