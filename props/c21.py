"""C21 — the single-connection SQLite store keeps working after use."""
from __future__ import annotations

import asyncio
import json

from worlds.simple import simulate_simple
from worlds.stores import TmpDir, gen_value

ID = "C21"
LEVEL = "exploration"
QUICK_RUNS = 800
THOROUGH_SECONDS = 600
RULE_TEXT = ("The same seeded operation sequence (6-30 ops: handler update/query/delete, append_event/query_events/"
             "subscribe_events, append_tick/get_ticks/stream_ticks, create_state_store followed by get/set/edit_state/"
             "set_state/clear on one or two runs, filters with 501/1200-entry id lists, and 'restart' (both store objects dropped without close and reopened on the same files), interleaved in any order) is applied to SqliteWorkflowStore(single_connection=True) "
             "(the AgentCore configuration, unix-none VFS) and to a store with per-call connections on separate files; every "
             "result and error class is compared. Non-trivial: >=1 state-store op was followed by >=1 workflow-store op on the "
             "same store; distinct = op-kind sequence.")
COMPONENTS = {"real": ["SqliteWorkflowStore (both modes), SqliteStateStore, migrations, stdlib sqlite3 on real files"], "stub": [],
              "sim": ["loop (subscriber tasks), op generator"]}
ASSUMPTIONS = ["both stores live in one process; file locking differences of the unix-none VFS are not exercised"]
EXPECTED_PROBES = ["state-seeded-from-other-run", "state-op-then-store-op", "subscribe", "two-runs", "long-filter-list", "restart"]
LEVEL_TEXT = "Seeded differential exploration of operation histories between the two connection modes."
LEVEL_NOTE = "Trusted: nothing beyond the comparison itself (differential oracle)."

CFG = {"quiesce_gap": 50.0}


def run(tape):
    nops = tape.rng_int(6, 30, "nops")
    td = TmpDir()

    async def scenario(world):
        from llama_agents.client.protocol.serializable_events import EventEnvelopeWithMetadata
        from llama_agents.server._store.abstract_workflow_store import HandlerQuery, PersistentHandler
        from llama_agents.server._store.sqlite.sqlite_workflow_store import SqliteWorkflowStore
        from workflows.context.state_store import DictState
        from workflows.events import StopEvent
        from worlds import events as EV
        stores = {"single": SqliteWorkflowStore(td.db("single.db"), single_connection=True, poll_interval=0.25),
                  "percall": SqliteWorkflowStore(td.db("percall.db"), poll_interval=0.25)}
        state_stores: dict = {}
        ops = []
        last_state_op = [False]

        async def both(name, fn):
            outs = {}
            for b, st in stores.items():
                try:
                    outs[b] = ("ok", _n(await fn(b, st)))
                except Exception as e:  # noqa: BLE001
                    outs[b] = ("err", type(e).__name__ + ": " + str(e)[:60])
            ops.append(name)
            world.trace.log("op", op=name.split("(")[0])
            if outs["single"][0] != outs["percall"][0]:
                world.violate("C21.raises", f"{name}: single_connection -> {outs['single']}, per-call connections -> {outs['percall']} (ops {ops})",
                              op=name.split("(")[0], which="single" if outs["single"][0] == "err" else "percall")
            elif outs["single"] != outs["percall"]:
                world.violate("C21.diff", f"{name}: single_connection -> {outs['single']}, per-call -> {outs['percall']}", op=name.split("(")[0])

        def sstore(b, rid):
            k = (b, rid)
            if k not in state_stores:
                state_stores[k] = stores[b].create_state_store(rid)
            return state_stores[k]

        nev = {"r1": 0, "r2": 0, "r3": 0}
        for i in range(nops):
            if world.violations:
                break
            rid = tape.choice(["r1", "r1", "r2", "r3"], "rid")
            if rid == "r2":
                world.probe("two-runs")
            op = tape.choice(["h_update", "h_query", "h_delete", "ev_append", "ev_query", "ev_subscribe", "tick_append", "tick_get",
                              "st_set", "st_get", "st_edit", "st_set_state", "st_clear", "st_fresh", "st_seed", "st_seed_mem", "tick_append_bad", "st_typed_after_untyped",
                              "h_long_filter", "restart"], "op")
            is_state = op.startswith("st_")
            if not is_state and last_state_op[0]:
                world.probe("state-op-then-store-op")
            if op == "h_update":
                status = tape.choice(["running", "completed", "failed"], "status")
                hid = tape.choice(["h1", "h2", "h3"], "hid")
                await both(f"update({hid},{status})", lambda b, st: st.update(PersistentHandler(handler_id=hid, workflow_name="wf", status=status, run_id="r" + hid[1:],
                                                                                               result=StopEvent(result=i) if status == "completed" else None)))
            elif op == "h_query":
                k = tape.draw(3, "q")
                q = [dict(), dict(status_in=["running"]), dict(handler_id_in=["h1", "h2"])][k]
                await both(f"query({q})", lambda b, st: _handlers(st, HandlerQuery(**q)))
            elif op == "h_long_filter":
                # a filter list longer than SQLite's classic 500/999 variable limits (a dashboard asking for many handlers at once)
                world.probe("long-filter-list")
                hid = tape.choice(["h1", "h2", "h3"], "hid")
                ids = [f"zz{j}" for j in range(tape.choice([501, 1200], "long.n"))] + [hid]
                if tape.draw(3, "long.kind") == 0:
                    await both(f"delete(handler_id_in=[{len(ids)} ids incl. {hid}])", lambda b, st: st.delete(HandlerQuery(handler_id_in=ids)))
                else:
                    await both(f"query(handler_id_in=[{len(ids)} ids incl. {hid}])", lambda b, st: _handlers(st, HandlerQuery(handler_id_in=ids)))
            elif op == "restart":
                # the process ends without closing anything and a new one opens the same files: everything acknowledged so far must be there
                import gc
                world.probe("restart")
                world.fault("process-restart")
                state_stores.clear()
                for b in list(stores):
                    stores[b] = None
                gc.collect()
                stores["single"] = SqliteWorkflowStore(td.db("single.db"), single_connection=True, poll_interval=0.25)
                stores["percall"] = SqliteWorkflowStore(td.db("percall.db"), poll_interval=0.25)
                await both("query({}) after restart", lambda b, st: _handlers(st, HandlerQuery()))
                for r_ in ("r1", "r2", "r3"):
                    await both(f"query_events({r_}) after restart", lambda b, st: _events(st.query_events(r_, after_sequence=None)))
            elif op == "h_delete":
                hid = tape.choice(["h1", "h2", "h3"], "hid")
                await both(f"delete({hid})", lambda b, st: st.delete(HandlerQuery(handler_id_in=[hid])))
            elif op == "ev_append":
                nev[rid] += 1
                n = nev[rid]
                await both(f"append_event({rid},#{n})", lambda b, st: st.append_event(rid, EventEnvelopeWithMetadata.from_event(EV.E0(uid=n))))
            elif op == "ev_query":
                after = tape.choice([None, -1, 0, 1, 5], "after")
                await both(f"query_events({rid},{after})", lambda b, st: _events(st.query_events(rid, after_sequence=after)))
            elif op == "ev_subscribe":
                world.probe("subscribe")
                after = tape.choice([-1, 0, 1], "after")
                want = max(0, nev[rid] - (after + 1))

                async def sub(b, st):
                    out = []
                    if want == 0:
                        return out
                    async for e in st.subscribe_events(rid, after_sequence=after):
                        out.append((e.sequence, e.event.value.get("uid")))
                        if len(out) >= want:
                            break
                    return out
                await both(f"subscribe_events({rid},{after})x{want}", sub)
            elif op == "tick_append":
                await both(f"append_tick({rid})", lambda b, st: st.append_tick(rid, {"type": "x", "i": i}))
            elif op == "tick_append_bad":
                # a payload that cannot be serialised: the call fails (in both modes alike); what matters is what the store does afterwards
                world.probe("append-with-unserialisable-payload")
                await both(f"append_tick({rid}, unserialisable)", lambda b, st: st.append_tick(rid, {"type": "x", "bad": {1, 2}}))
            elif op == "st_typed_after_untyped":
                # the server takes untyped handles on a run (context lookup, legacy seeding) and typed ones (step invocations)
                from worlds.stores import ChildSt
                world.probe("typed-handle-after-untyped-handle")
                trid = "t-" + rid

                async def typed(b, st):
                    keep = state_stores.setdefault((b, trid, "untyped"), st.create_state_store(trid))
                    await keep.get_state()
                    ts = st.create_state_store(trid, state_type=ChildSt)
                    cur = await ts.get_state()
                    await ts.set_state(ChildSt(a=i, extra="t"))
                    got = await ts.get_state()
                    return [type(cur).__name__, type(got).__name__, got.model_dump() if hasattr(got, "model_dump") else str(got)]
                await both(f"typed state store for {trid} while an untyped handle is alive", typed)
            elif op == "tick_get":
                if tape.draw(2, "stream"):
                    await both(f"stream_ticks({rid})", lambda b, st: _stream(st, rid))
                else:
                    await both(f"get_ticks({rid})", lambda b, st: _ticks(st, rid))
            elif op == "st_set":
                key = tape.choice(["a", "b.c"], "key")
                val = gen_value(tape, 1)
                await both(f"state[{rid}].set({key})", lambda b, st: sstore(b, rid).set(key, val))
            elif op == "st_get":
                key = tape.choice(["a", "b.c", "zz"], "key")
                await both(f"state[{rid}].get({key})", lambda b, st: sstore(b, rid).get(key, default="dflt"))
            elif op == "st_edit":
                async def ed(b, st):
                    async with sstore(b, rid).edit_state() as s:
                        s["cnt"] = s.get("cnt", 0) + 1
                await both(f"state[{rid}].edit_state", ed)
            elif op == "st_set_state":
                await both(f"state[{rid}].set_state", lambda b, st: sstore(b, rid).set_state(DictState(z=i)))
            elif op == "st_clear":
                await both(f"state[{rid}].clear", lambda b, st: sstore(b, rid).clear())
            elif op == "st_fresh":
                # a new state-store object for the run, as every step invocation gets on the server
                for b in stores:
                    state_stores.pop((b, rid), None)
                await both(f"state[{rid}].get_state(new object)", lambda b, st: _state(sstore(b, rid)))
            elif op in ("st_seed", "st_seed_mem"):
                # a run continued from an earlier run: its state store is created from the serialized form of the old one
                # (SQL-level copy for a sqlite reference, InMemory-format payload otherwise)
                from workflows.context.serializers import JsonSerializer
                from workflows.context.state_store import InMemoryStateStore
                world.probe("state-seeded-from-other-run")
                target = "r3" if rid != "r3" else "r1"

                async def seed(b, st):
                    ser = JsonSerializer()
                    if op == "st_seed":
                        payload = sstore(b, rid).to_dict(ser)
                    else:
                        payload = InMemoryStateStore(DictState(seeded=i)).to_dict(ser)
                    state_stores[(b, target)] = st.create_state_store(target, None, payload, ser)
                    return await _state(state_stores[(b, target)])
                await both(f"state[{target}] seeded from {rid if op == 'st_seed' else 'in-memory payload'}", seed)
            last_state_op[0] = is_state
        world._nt = bool(world.probes.get("state-op-then-store-op"))
        return ops

    try:
        return simulate_simple(tape, CFG, scenario, None, nontrivial=lambda w, o: getattr(w, "_nt", False), sample=lambda w, o: {"ops": o})
    finally:
        td.close()


def _n(x):
    return json.loads(json.dumps(x, default=str, sort_keys=True))


async def _handlers(st, q):
    return sorted((h.handler_id, h.status, h.run_id, _n(h.result.result) if h.result is not None else None) for h in await st.query(q))


async def _events(coro):
    return [(e.sequence, e.event.value.get("uid")) for e in await coro]


async def _ticks(st, rid):
    return [(t.sequence, t.tick_data) for t in await st.get_ticks(rid)]


async def _stream(st, rid):
    return [(t.sequence, t.tick_data) async for t in st.stream_ticks(rid)]


async def _state(ss):
    s = await ss.get_state()
    return dict(s._data)
