"""C29 — stream merge and sorted-prefix utilities preserve items and order."""
from __future__ import annotations

import asyncio

from worlds.simple import simulate_simple

ID = "C29"
LEVEL = "exploration"
QUICK_RUNS = 4000
THOROUGH_SECONDS = 600
RULE_TEXT = ("merge_generators over 1-4 sources and debounced_sorted_prefix over one source; item gaps drawn from a grid that "
             "contains debounce_seconds and max_window_seconds exactly and +-1/1024 s, zero gaps and same-instant ties, plus 0-3 bare "
             "event-loop hops after each gap and optional synchronous stalls of the source across a deadline (arrivals inside the "
             "signal-to-marker hand-off); a source "
             "may raise at item i; Task-set iteration order (hash salt) varied per run. Non-trivial: (merge) >=2 sources "
             "produced items at the same instant, or (debounce) >=1 item arrived within one tick of the flush instant; "
             "distinct = abstract trace shape."
             " Debounce half, rule burst-cut: the length of the sorted prefix must be one the documented window admits (closing instant computed from the recorded arrival times: no arrival for debounce_seconds, or max_window_seconds from the start / from the first buffered item; arrivals within 4 loop hops of the closing instant or delivered across a loop stall may fall on either side).")
COMPONENTS = {"real": ["llama_agents.core.iter_utils (merge_generators, debounced_sorted_prefix, Debouncer)"], "stub": [], "sim": ["loop, clock (time.monotonic patched before import)"]}
ASSUMPTIONS = ["arrival order = order in which the inner generator produced the items", "keys are unique, so 'sorted' is unambiguous"]
EXPECTED_PROBES = ["none-item", "equal-sort-keys", "merge-tie", "merge-error", "debounce-boundary-arrival", "debounce-late-items", "max-window-flush", "burst-extended-past-first-deadline"]
LEVEL_TEXT = "Seeded exploration of arrival timings around the window boundaries and of task-set iteration order; outputs compared with the sequence semantics in the statement."
LEVEL_NOTE = "Trusted: simulator loop/clock."

T = 1.0 / 1024
CFG = {"quiesce_gap": 50.0}


class SrcError(Exception):
    pass


def run(tape):
    if tape.draw(2, "which"):
        return _run_merge(tape)
    return _run_debounce(tape)


def _run_merge(tape):
    n = tape.rng_int(1, 4, "nsrc")
    gaps = [0, 0, T, 2 * T, 4 * T, 8 * T]
    srcs = []
    for s in range(n):
        k = tape.rng_int(0, 5, "nitems")
        err_at = tape.rng_int(0, k, "err.at") if tape.chance(15, 100, "err?") else None
        # a source may yield None as an ordinary item (any object is a legal item)
        none_at = tape.rng_int(0, k - 1, "none.at") if k and tape.chance(20, 100, "none?") else None
        srcs.append({"items": [(s, i) for i in range(k)], "gaps": [tape.choice(gaps, "gap") for _ in range(k + 1)], "err_at": err_at, "none_at": none_at})

    async def scenario(world):
        from llama_agents.core.iter_utils import merge_generators
        produced_at: dict = {}

        async def gen(s, spec):
            for i, item in enumerate(spec["items"]):
                g = spec["gaps"][i]
                if g:
                    await asyncio.sleep(g)
                if spec["err_at"] == i:
                    world.fault("source-error")
                    world.trace.log("raise", src=s, i=i)
                    raise SrcError(f"src{s}@{i}")
                world.trace.log("produce", src=s, i=i)
                produced_at[item] = world.clock.t
                if spec["none_at"] == i:
                    world.probe("none-item")
                    nones.append(item)
                    yield None
                else:
                    yield item
            g = spec["gaps"][len(spec["items"])]
            if g:
                await asyncio.sleep(g)
            if spec["err_at"] == len(spec["items"]):
                world.fault("source-error")
                world.trace.log("raise", src=s, i=len(spec["items"]))
                raise SrcError(f"src{s}@end")
        out = []
        err = None
        nones: list = []
        n_none = [0]
        try:
            async for it in merge_generators(*[gen(s, sp) for s, sp in enumerate(srcs)]):
                if it is None:
                    n_none[0] += 1
                    world.trace.log("yield", src=None, i=None)
                    continue
                out.append(it)
                world.trace.log("yield", src=it[0], i=it[1])
        except SrcError as e:
            err = e
            world.trace.log("merge-raised", msg=str(e))
        return out, err, produced_at, nones, n_none[0]

    def check(world, res):
        out, err, produced_at, nones, n_none = res
        any_err = any(sp["err_at"] is not None for sp in srcs)
        if any_err:
            world.probe("merge-error")
            if err is None:
                world.violate("C29.merge-error", f"a source raised but merge_generators ended normally; output {out}")
        elif err is not None:
            world.violate("C29.merge-error", f"merge raised {err!r} although no source raised")
        # every yielded item was produced, at most once; without errors: exactly the inputs
        if len(set(out)) != len(out):
            world.violate("C29.merge-multiset", f"item yielded twice: {out}", how="duplicate")
        if not any_err:
            want = sorted(it for sp in srcs for it in sp["items"] if it not in nones)
            if sorted(out) != want or n_none != len(nones):
                world.violate("C29.merge-multiset", f"yielded {sorted(out)} + {n_none} x None != inputs {want} + {len(nones)} x None",
                              how="missing" if len(out) + n_none < len(want) + len(nones) else "extra")
        else:
            # items produced strictly before the failing instant must not be dropped? (statement: re-raises an input's error) - only order/dup checked
            pass
        for s in range(len(srcs)):
            seq = [i for (ss, i) in out if ss == s]
            if seq != sorted(seq):
                world.violate("C29.merge-source-order", f"items of source {s} yielded out of order: {seq}")
        times = sorted(produced_at.values())
        if any(a == b for a, b in zip(times, times[1:])):
            world.probe("merge-tie")
        world._nt = len(srcs) >= 2 and any(a == b for a, b in zip(times, times[1:]))
    return simulate_simple(tape, CFG, scenario, check, nontrivial=lambda w, o: w._nt, sample=lambda w, o: {"util": "merge", "sources": srcs})


def _run_debounce(tape):
    deb = tape.choice([64 * T, 128 * T], "debounce")
    mx = tape.choice([128 * T, 256 * T, 512 * T], "maxwin")
    n = tape.rng_int(1, 8, "n")
    gaps = [0, 0, T, 8 * T, deb / 2, deb / 2, deb - T, deb, deb + T, mx - T, mx, mx + T, 2 * mx]
    items = []
    keys = list(range(n))
    order = []
    pool = list(keys)
    while pool:
        order.append(pool.pop(tape.draw(len(pool), "key")))
    # extra event-loop hops (bare yields) after the timed gap: arrivals land 0-3 loop iterations after a same-instant timer,
    # i.e. inside the hand-off between the debouncer's signal and the completion marker
    # ... optionally preceded by a synchronous stall of the source (event loop blocked across a deadline)
    plan = [(order[i], tape.choice(gaps, "gap"), tape.choice([0, 0, 1, 2, 3], "hops"),
             tape.choice([0, 0, 0, T, 8 * T, 32 * T], "stall")) for i in range(n)]
    # items are records sorted by a key function; in the tie arm several records share a sort key (records themselves are not orderable)
    ties = tape.chance(30, 100, "key-ties?")
    sort_key = (lambda ident: ident // 2) if ties else (lambda ident: ident)
    tail = tape.choice([0, T, deb, mx], "tail")

    arr_t: list = []
    t0 = 0.0

    def admissible_bursts():
        """sizes the initial burst may have by the documented window: it closes when no item arrived for debounce_seconds or when
        max_window_seconds have elapsed (counted from the start, or - the docstring's wording - from the first buffered item; both
        readings are accepted); an arrival within a few loop iterations of the closing instant, or delivered by a loop that was
        blocked across it, may fall on either side"""
        eps = 4 * T
        res = set()
        n_ = len(arr_t)
        for mx_from_first in (False, True):
            def rec(i, complete, mx_deadline):
                b = min(complete, mx_deadline)
                if i == n_:
                    res.add(i)
                    return
                a, st_ = arr_t[i]
                if mx_from_first and i == 0:
                    mx_deadline = max(mx_deadline, a + mx)
                    b = min(complete, mx_deadline)
                if a + eps < b:
                    rec(i + 1, a + deb, mx_deadline)
                elif a - st_ - eps > b:
                    res.add(i)
                else:
                    res.add(i)
                    rec(i + 1, a + deb, mx_deadline)
            rec(0, deb, mx)
        return res

    async def scenario(world):
        from llama_agents.core.iter_utils import debounced_sorted_prefix
        arrivals = []

        async def inner():
            for key, gap, hops, stall in plan:
                if gap:
                    await asyncio.sleep(gap)
                if stall:
                    world.loop.stall(stall)
                    world.fault("loop-stall")
                for _ in range(hops):
                    await asyncio.sleep(0)
                arrivals.append(key)
                arr_t.append((world.clock.t - t0, stall))
                world.trace.log("produce", key=key)
                yield {"id": key, "k": sort_key(key)}
            if tail:
                await asyncio.sleep(tail)
        out = []
        nonlocal t0
        t0 = world.clock.t
        try:
            async for it in debounced_sorted_prefix(inner(), key=lambda x: x["k"], debounce_seconds=deb, max_window_seconds=mx):
                out.append(it["id"])
                world.trace.log("yield", key=it["id"])
        except Exception as e:  # noqa: BLE001
            world.violate("C29.debounce-error", f"debounced_sorted_prefix raised {type(e).__name__}: {e} (arrivals {arrivals}, sort keys {[sort_key(a) for a in arrivals]})", exc=type(e).__name__)
        if ties:
            world.probe("equal-sort-keys")
        return out, arrivals

    def check(world, res):
        out, arrivals = res
        world._nt = False
        if any(v["rule"] == "C29.debounce-error" for v in world.violations):
            return
        if sorted(out) != sorted(arrivals) or len(out) != len(set(out)):
            world.violate("C29.debounce-multiset", f"output {out} is not a permutation of the inputs {arrivals}",
                          how="missing" if len(out) < len(arrivals) else "duplicate-or-extra")
            return

        def burst_ok(k):
            # the first k arrivals come out sorted by key (any order among equal keys), the rest in arrival order
            head = out[:k]
            return sorted(head) == sorted(arrivals[:k]) and [sort_key(x) for x in head] == sorted(sort_key(x) for x in head) and out[k:] == arrivals[k:]
        ok = any(burst_ok(k) for k in range(len(arrivals) + 1))
        adm = admissible_bursts()
        if ok and not any(burst_ok(k) for k in adm):
            got = [k for k in range(len(arrivals) + 1) if burst_ok(k)]
            world.violate("C29.burst-cut", f"arrivals {arrivals} at {[round(a, 4) for a, _ in arr_t]} (debounce {deb}, max window {mx}) -> output {out}: explained only by an "
                          f"initial burst of {got} items, the documented window admits {sorted(adm)}", how="shorter" if max(got) < min(adm) else "longer")
        if len(adm) == 1 and 0 < min(adm) and len(arr_t) >= 2 and arr_t[min(adm) - 1][0] > deb + 4 * T:
            world.probe("burst-extended-past-first-deadline")
        if not ok:
            # which kind: did an item that arrived later get out before items of the sorted burst?
            first_unsorted = next((i for i in range(len(out)) if out[:i + 1] != sorted(arrivals[:i + 1]) and out[i] not in arrivals[:i + 1]), None)
            world.violate("C29.late-before-burst" if first_unsorted is not None else "C29.debounce-shape",
                          f"arrivals {arrivals} -> output {out}: not 'sorted initial burst, then arrival order'")
        # probes: reconstruct flush time roughly from trace
        yt = [t for _, t, k, f in world.trace.recs if k == "yield"]
        pt = [t for _, t, k, f in world.trace.recs if k == "produce"]
        if yt:
            flush = yt[0]
            if any(abs(p - flush) <= T for p in pt):
                world.probe("debounce-boundary-arrival")
            if any(p > flush for p in pt):
                world.probe("debounce-late-items")
            if abs(flush - mx) <= T:
                world.probe("max-window-flush")
            world._nt = any(abs(p - flush) <= T for p in pt)
        else:
            world._nt = False
    return simulate_simple(tape, CFG, scenario, check, nontrivial=lambda w, o: w._nt,
                           sample=lambda w, o: {"util": "debounce", "debounce": deb, "max_window": mx, "plan": plan})
