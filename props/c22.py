"""C22 — resource injection honors caching and cycle detection under concurrency."""
from __future__ import annotations

import asyncio
from typing import Annotated, Any, Optional, Union

from worlds import events as EV
from worlds.engine import EngineWorld, _finish
from worlds.engine_common import simulate
from workflows import Context, Workflow, step
from workflows.events import StopEvent
from workflows.resource import Resource

ID = "C22"
LEVEL = "exploration"
QUICK_RUNS = 2000
THOROUGH_SECONDS = 600
RULE_TEXT = ("Workflows whose steps (num_workers 1..4) take 1-3 injected resources built from sync/async factories that take "
             "tape-chosen time, cached and non-cached, arranged as single, chain, diamond (shared non-cached leaf) or a genuine "
             "cycle; a producer fans out 2-6 events so that several invocations resolve the same resources concurrently. "
             "Non-trivial: >=2 resolutions of one resource overlapped in time; distinct = abstract trace shape."
             " In 30% of the two-step programs the second step refers to the first resource's factory through a descriptor with the opposite cache flag (identity judged per descriptor; the non-cached one must never be handed the cached object). In 20% of the single/two shapes the factory of resource a runs a child workflow whose two concurrent step invocations resolve a non-cached resource.")
COMPONENTS = {"real": ["workflows.resource.ResourceManager/_Resource, step_function.partial, engine"], "stub": ["llama_index_instrumentation"],
              "sim": ["loop, clock, instrumented factories"]}
ASSUMPTIONS = ["'one dependency resolution' = the resolution performed for one step invocation"]
EXPECTED_PROBES = ["shared-dependency-across-step-parameters", "falsy-cached-resource", "overlapping-resolutions", "diamond", "cycle-graph", "cached-hit", "async-factory"]
LEVEL_TEXT = "Seeded exploration of factory durations x graph shapes x worker counts; oracle over creation/injection records of tagged objects."
LEVEL_NOTE = "Trusted: simulator loop, factory/step instrumentation."

CFG = {"driver": "finish", "grid": [0, 0, 1, 2, 3]}


class Tag:
    __slots__ = ("name", "n", "deps")

    def __init__(self, name, n, deps):
        self.name, self.n, self.deps = name, n, deps

    def ident(self):
        return f"{self.name}#{self.n}"


class EmptyTag(Tag):
    """a resource that is an (empty) container: falsy, like a fresh list / registry / cache dict"""
    __slots__ = ()

    def __len__(self):
        return 0


def gen(tape, cfg):
    shape = tape.choice(["single", "single", "chain", "diamond", "diamond", "cycle", "two", "two-shared", "two-shared"], "shape")
    return {"shape": shape, "n_events": tape.rng_int(2, 6, "n"), "workers": tape.rng_int(1, 4, "workers"),
            "cache": {k: bool(tape.draw(2, "cache." + k)) for k in "abcd"},
            "is_async": {k: bool(tape.draw(4, "async." + k)) for k in "abcd"},
            "falsy": {k: tape.chance(25, 100, "falsy." + k) for k in "abcd"},
            "second_step": tape.chance(50, 100, "second"),
            # the second step refers to the first resource's factory through a descriptor with the opposite cache flag
            "alt_desc": tape.chance(30, 100, "alt-desc"),
            # the factory of resource a runs another workflow, whose step invocations resolve a non-cached resource of their own
            "nested": tape.chance(20, 100, "nested"),
            "steps": [], "types": ["E0"], "driver": "finish", "timeout": None}


def build(world, spec):
    created: dict[str, int] = {}
    shape = spec["shape"]

    def make_factory(key, dep_names):
        is_async = spec["is_async"][key]

        def _mk(deps):
            created[key] = created.get(key, 0) + 1
            t = (EmptyTag if spec["falsy"][key] else Tag)(key, created[key], {k: v for k, v in deps.items()})
            if spec["falsy"][key] and spec["cache"][key]:
                world.probe("falsy-cached-resource")
            world.trace.log("create", res=key, n=t.n, cached=spec["cache"][key], deps={k: (v.ident() if isinstance(v, Tag) else str(v)) for k, v in deps.items()})
            return t
        if is_async:
            world.probe("async-factory")

            async def fac(**deps):
                world.trace.log("factory-start", res=key)
                d = world.tape.choice(world.cfg["grid"], "factory." + key)
                if d:
                    await asyncio.sleep(d)
                else:
                    await asyncio.sleep(0)
                r = _mk(deps)
                world.trace.log("factory-end", res=key)
                return r
        else:
            def fac(**deps):
                world.trace.log("factory-start", res=key)
                r = _mk(deps)
                world.trace.log("factory-end", res=key)
                return r
        fac.__name__ = fac.__qualname__ = f"fac_{key}"
        return fac

    nested = bool(spec.get("nested")) and shape in ("single", "two")
    if nested:
        spec["is_async"]["a"] = True
        spec["cache"]["c"] = False
        spec["falsy"]["c"] = False
    facs = {k: make_factory(k, []) for k in "abcd"}
    child_no = [0]
    if nested:
        world.probe("factory-runs-another-workflow")
        inner_a = facs["a"]

        async def fac_a(**deps):
            child_no[0] += 1
            child = child_cls[0](timeout=None, runtime=world.runtime)
            world.trace.log("child-run-start", n=child_no[0])
            try:
                await child.run(start_event=EV.Start0(uid=world.uid()), run_id=f"child{child_no[0]}")
            finally:
                world.trace.log("child-run-end", n=child_no[0])
            return await inner_a(**deps)
        fac_a.__name__ = fac_a.__qualname__ = "fac_a"
        facs["a"] = fac_a
    child_cls: list = [None]
    res = {k: Resource(facs[k], cache=spec["cache"][k]) for k in "abcd"}

    def set_deps(key, deps):
        # factories declare dependencies as annotated keyword parameters
        import inspect
        params = [inspect.Parameter(d, inspect.Parameter.KEYWORD_ONLY, annotation=Annotated[Any, res[d]]) for d in deps]
        facs[key].__signature__ = inspect.Signature(params)
        facs[key].__annotations__ = {d: Annotated[Any, res[d]] for d in deps}

    if shape == "chain":
        set_deps("a", ["b"]); set_deps("b", ["c"]); set_deps("c", [])
        top = ["a"]
    elif shape == "diamond":
        set_deps("a", ["b", "c"]); set_deps("b", ["d"]); set_deps("c", ["d"]); set_deps("d", [])
        top = ["a"]
        world.probe("diamond")
    elif shape == "cycle":
        set_deps("a", ["b"]); set_deps("b", ["a"])
        top = ["a"]
        world.probe("cycle-graph")
    elif shape == "two":
        set_deps("a", []); set_deps("b", [])
        top = ["a", "b"]
    elif shape == "two-shared":
        # a diamond across the step's own parameters: both injected resources depend on d
        set_deps("a", ["d"]); set_deps("b", ["d"]); set_deps("d", [])
        top = ["a", "b"]
        world.probe("shared-dependency-across-step-parameters")
    else:
        set_deps("a", [])
        top = ["a"]
    for k in "abcd":
        if not facs[k].__dict__.get("__signature__"):
            set_deps(k, [])

    alt = {k: Resource(facs[k], cache=not spec["cache"][k]) for k in "abcd"}

    def make_step(name, accepts, uses, ret_stop=False, sends=None, use_alt=False):
        async def fn(self, ctx, ev, r0=None, r1=None):
            rec = world._enter({"name": name}, ctx, ev)
            kind = "returned"
            try:
                inj = {"r0": r0, "r1": r1}
                world.trace.log("inject", step=name, inv=rec["inv"], objs={p: (v.ident() if isinstance(v, Tag) else None) for p, v in inj.items()},
                                tree={p: _tree(v) for p, v in inj.items() if isinstance(v, Tag)}, alt=["r0"] if use_alt else [])
                await world.work()
                if sends:
                    for i in range(sends):
                        e = world.mk("E0", rec["uid"], name)
                        world.trace.log("emit", uid=e.uid, ev="E0", by=name, via="send", target=None, parent=rec["uid"], inv=rec["inv"], run=rec["run"])
                        ctx.send_event(e)
                if ret_stop:
                    kind = "returned-stop"
                    return StopEvent(result="done")
                return None
            except BaseException as e:  # noqa: BLE001
                kind = "raised:" + type(e).__name__
                raise
            finally:
                world._exit(rec, kind)
        fn.__name__ = name
        fn.__qualname__ = f"ResWf.{name}"
        ann = {"ctx": Context, "ev": accepts, "return": Optional[StopEvent] if not sends else Union[EV.E0, None]}
        for i, u in enumerate(uses):
            ann[f"r{i}"] = Annotated[Any, (alt if (use_alt and i == 0) else res)[u]]
        fn.__annotations__ = ann
        return fn

    if nested:
        cns = {"cs": step(num_workers=1)(make_step("cs", EV.Start0, [], sends=2)),
               "cw": step(num_workers=2)(make_step("cw", EV.E0, ["c"], ret_stop=True))}
        ccls = type("ChildResWf", (Workflow,), cns)
        ccls.__module__ = __name__
        child_cls[0] = ccls
    ns = {"s0": step(num_workers=1)(make_step("s0", EV.Start0, [], sends=spec["n_events"])),
          "w0": step(num_workers=spec["workers"])(make_step("w0", EV.E0, top)),
          "zfin": step(num_workers=1)(make_step("zfin", EV.Fin, [], ret_stop=True))}
    if spec["second_step"]:
        use_alt = bool(spec.get("alt_desc")) and spec["shape"] != "cycle"
        if use_alt:
            world.probe("same-factory-cached-and-non-cached")
        ns["w1"] = step(num_workers=spec["workers"])(make_step("w1", EV.E0, top[:1], use_alt=use_alt))
    cls = type("ResWf", (Workflow,), ns)
    cls.__module__ = __name__
    return cls(timeout=None, runtime=world.runtime), top


def _tree(t):
    return {"id": t.ident(), "deps": {k: _tree(v) for k, v in t.deps.items() if isinstance(v, Tag)}}


async def scenario(world, spec):
    wf, top = build(world, spec)
    spec["_top"] = top
    start = EV.Start0(uid=world.uid())
    handler = wf.run(start_event=start, run_id="run1")
    consumer = asyncio.ensure_future(world.consume(handler))
    return await _finish(world, spec, handler, consumer, [], {"handler": handler, "wf": wf})


def check(world, spec, outcome) -> None:
    recs = world.trace.recs
    cache = spec["cache"]
    creations: dict[str, list] = {}
    inj_by_obj: dict[str, set] = {}
    cached_ids: dict[str, set] = {}
    open_fac: dict[str, int] = {}
    overlap = False
    # overlapping resolutions: two invocations of resource-taking steps dispatched (RUNNING) and not yet injected at the same time
    resolving = 0
    slot_open: dict = {}
    for seq, t, kind, f in recs:
        if kind == "publish" and f.get("ev") == "StepStateChanged" and f.get("step") in ("w0", "w1"):
            key = (f["step"], f["worker"])
            if f["state"] == "RUNNING":
                slot_open[key] = True
                resolving += 1
                if resolving >= 2:
                    overlap = True
            elif f["state"] == "NOT_RUNNING" and slot_open.pop(key, None):
                resolving -= 1
        elif kind == "enter" and f["step"] in ("w0", "w1"):
            for k in list(slot_open):
                if k[0] == f["step"] and slot_open.get(k):
                    slot_open[k] = False
                    resolving -= 1
                    break
    deps_of = {"chain": {"a": ["b"], "b": ["c"]}, "diamond": {"a": ["b", "c"], "b": ["d"], "c": ["d"]}, "cycle": {"a": ["b"], "b": ["a"]},
               "two-shared": {"a": ["d"], "b": ["d"]}}.get(spec["shape"], {})

    def async_in_closure(name, seen=()):
        # root-cause attribute of the known creation race: does resolving this resource suspend at all (an async factory in its closure)?
        if name in seen:
            return False
        return bool(spec["is_async"][name]) or any(async_in_closure(d, seen + (name,)) for d in deps_of.get(name, []))
    alt_used = bool(spec.get("alt_desc")) and spec.get("second_step") and spec["shape"] != "cycle"
    alt_name = (spec.get("_top") or ["a"])[0] if alt_used else None
    for seq, t, kind, f in recs:
        if kind == "factory-start":
            open_fac[f["res"]] = open_fac.get(f["res"], 0) + 1
            if open_fac[f["res"]] >= 2:
                overlap = True
        elif kind == "factory-end":
            open_fac[f["res"]] -= 1
        elif kind == "create":
            creations.setdefault(f["res"], []).append(seq)
            # (a factory that is also referred to through a non-cached descriptor is legitimately called again: judged by identity below)
            if cache[f["res"]] and len(creations[f["res"]]) > 1 and f["res"] != alt_name:
                world.violate("C22.cached-twice", f"cached resource {f['res']} created {len(creations[f['res']])} times for one workflow instance", seq, concurrent=overlap,
                              async_in_closure=async_in_closure(f["res"]))
        elif kind == "inject":
            def walk(node, top_inv, flip=False):
                ident = node["id"]
                name = ident.split("#")[0]
                is_cached = (not cache[name]) if flip else cache[name]
                if is_cached:
                    cached_ids.setdefault(name, set()).add(ident)
                    if len(cached_ids[name]) > 1:
                        world.violate("C22.cached-identity", f"cached resource {name}: different objects injected {sorted(cached_ids[name])}", seq, concurrent=overlap,
                                      async_in_closure=async_in_closure(name), alt_descriptor=alt_used and name == alt_name)
                    return      # a cached object keeps the dependencies it was created with
                else:
                    if alt_used and name == alt_name and ident in cached_ids.get(name, set()):
                        world.violate("C22.noncached-shared", f"non-cached descriptor of {name} was handed the cached object {ident}", seq, concurrent=overlap, alt_descriptor=True)
                    inj_by_obj.setdefault(ident, set()).add(top_inv)
                    if len(inj_by_obj[ident]) > 1:
                        world.violate("C22.noncached-shared", f"non-cached object {ident} seen by step invocations {sorted(inj_by_obj[ident])}", seq, concurrent=overlap)
                for d in node["deps"].values():
                    walk(d, top_inv)
            seen_nc: dict[str, set] = {}

            def collect(node):
                name = node["id"].split("#")[0]
                if cache[name]:
                    return
                seen_nc.setdefault(name, set()).add(node["id"])
                for d in node["deps"].values():
                    collect(d)
            for p, tree in f["tree"].items():
                walk(tree, f["inv"], flip=p in f.get("alt", []))
                if p not in f.get("alt", []):
                    collect(tree)
            for name, ids in seen_nc.items():
                if len(ids) > 1:
                    world.violate("C22.noncached-split", f"within one resolution (invocation {f['inv']}) non-cached resource {name} resolved to {sorted(ids)}", seq, concurrent=overlap)
            if any(cache[tree["id"].split("#")[0]] for tree in f["tree"].values()) and len(creations.get(next(iter(f["tree"].values()))["id"].split("#")[0], [])) == 1:
                world.probe("cached-hit")
    err = outcome.get("error") if outcome else None
    is_cycle_err = err is not None and "Circular resource dependency" in str(err)
    if spec["shape"] == "cycle":
        if not is_cycle_err:
            world.violate("C22.cycle-missed", f"genuine cycle a->b->a not reported; outcome {('error ' + repr(err)) if err else 'no error'}")
    elif is_cycle_err:
        world.violate("C22.false-cycle", f"acyclic resource graph ({spec['shape']}) but the run failed with: {err}", concurrent=overlap)
    if overlap:
        world.probe("overlapping-resolutions")
    world._nt = overlap


def run(tape):
    return simulate(tape, CFG, check, gen=gen, scenario=scenario, nontrivial=lambda w, s, o: w._nt)
