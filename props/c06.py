"""C06 — retry delays follow the wait strategy in documented order."""
from __future__ import annotations

from worlds.engine_common import simulate
from worlds.policies import ref_wait_exact, ref_wait_lower_bound, ref_wait_range
from worlds.retry_world import attempts_of, deliveries, gen_retry_spec, wait_kind

ID = "C06"
LEVEL = "exploration"
QUICK_RUNS = 2000
THOROUGH_SECONDS = 600
RULE_TEXT = ("One always/partly failing step under wait_fixed, wait_chain (2-4 distinct fixed delays, increasing and "
             "decreasing), wait_exponential, wait_incrementing, wait_random, wait_exponential_jitter, "
             "wait_random_exponential, wait_combine with stop_after_attempt 2..6; the instant each retry body starts is "
             "compared, in virtual time, with the failure instant plus the documented delay (k-th retry -> k-th chain "
             "element / multiplier*base^(k-1) / start+increment*(k-1); documented lower bound for random strategies). "
             "Non-trivial: >=2 retries observed; distinct = (strategy kind, number of retries, parameters)."
             " Chains may contain a link that is itself a sum (fixed+random, fixed+fixed); contended arm may have a sibling consumer of the event type;"
             " collecting arm: the retried step buffers with collect_events and a successful, stale-snapshot invocation that the engine re-runs sits between its failures.")
COMPONENTS = {"real": ["workflows.* engine, retry_policy"], "stub": ["llama_index_instrumentation"], "sim": ["loop, clocks"]}
ASSUMPTIONS = ["tenacity indexing as quoted in the property statement: first retry = first chain strategy, initial/multiplier delay"]
EXPECTED_PROBES = ["retried-under-a-time-budget", "contended-arm", "retry-waited-for-slot", "chain-with-attempt-dependent-tail", "retry>=2", "retry-after-stale-collect-rerun", "chain", "exp", "inc", "random-family"]
LEVEL_TEXT = ("Seeded exploration of wait strategies x failure counts in virtual time, so 'earlier' has no scheduling slack; "
              "lower bound checked for every retry, exact documented delay for the first retry of deterministic strategies.")
LEVEL_NOTE = "Trusted: simulator clock; reference delay table in worlds/policies.py."

CFG = {"driver": "result", "grid": [0, 1, 2], "p_handler": 0, "rich_waits": True, "stop_attempts_only": True, "p_contend": 40, "p_stop_deadline": 35, "p_collect_retry": 15}


def gen(tape, cfg):
    spec = gen_retry_spec(tape, cfg)
    next(st for st in spec["steps"] if st["name"] == "s0")["retry"]["retry"] = None
    return spec


def check(world, spec, outcome) -> None:
    pol = next(st for st in spec["steps"] if st["name"] == "s0")["retry"]
    w = pol["wait"]
    wk = wait_kind(w)
    contended = bool(spec.get("contended"))
    if spec.get("collecting"):
        world.probe("collecting-arm")
    elif contended:
        world.probe("contended-arm")
    nretry = 0
    # instant at which the engine re-delivered the event for its k-th retry (the delayed TickAddEvent): the scheduled delay,
    # independent of how long the retry then had to wait for a free worker slot
    redelivered = {}
    for _, t, kind, f in world.trace.recs:
        if kind == "tick" and f.get("tick") == "add_event" and f.get("attempts"):
            redelivered.setdefault((f.get("uid"), f["attempts"]), t)
    for uid, atts in deliveries(world.trace.recs).items():
        # earliest instant from which this event's history contains an execution started at the instant a failed execution
        # with the same retry number ended (linear: failed executions indexed by (retry number, end instant))
        failed_at: dict = {}
        for a in atts:
            if a["exit"].startswith("raised:"):
                failed_at.setdefault((a["enter"].get("retry"), round(a["t1"], 6)), []).append(a)
        taint = float("inf")
        for b in atts:
            for a in failed_at.get((b["enter"].get("retry"), round(b["t0"], 6)), []):
                if a is not b:
                    taint = min(taint, max(a["t0"], b["t0"]))
        for i in range(1, len(atts)):
            prev, cur = atts[i - 1], atts[i]
            if not prev["exit"].startswith("raised:"):
                continue
            nretry += 1
            # the k-th retry follows the k-th failure; a successful invocation in between (the engine's re-run of a collecting
            # invocation whose buffer snapshot went stale) is not a failure
            k = sum(1 for a in atts[:i] if a["exit"].startswith("raised:"))
            if k != i:
                world.probe("retry-after-stale-collect-rerun")
            # root cause attribute: somewhere up to here the engine ran this event again at once after a FAILED attempt, under
            # the same retry number (stale-snapshot re-run issued for a failed collecting invocation, next to its retry)
            # (the two executions may overlap, so the pair need not be adjacent in the list, which is ordered by exit)
            rof = cur["t0"] >= taint - 1e-9
            if rof:
                world.probe("failed-attempt-rerun-at-once")
            start_gap = cur["t0"] - prev["t1"]
            rt = redelivered.get((uid, k))
            gap = (rt - prev["t1"]) if (rt is not None and prev["t1"] - 1e-9 <= rt <= cur["t0"] + 1e-9) else start_gap
            lb = ref_wait_lower_bound(w, k)
            nxt = ref_wait_exact(w, k + 1)
            nrange = ref_wait_range(w, k + 1)
            # root cause attribute: the delay is the one documented for the NEXT retry (exactly, or inside its documented range
            # when that link has a bounded random term)
            index = "k+1" if ((nxt is not None and abs(gap - nxt) <= 1e-9) or
                              (nxt is None and nrange is not None and nrange[0] - 1e-9 <= gap <= nrange[1] + 1e-9)) else "other"
            if gap < lb - 1e-9:
                world.violate("C06.too-early", f"uid {uid}: retry {k} started {gap}s after failure {k}; {w} documents >= {lb}s", cur["seq"],
                              strategy=wk, index=index, rerun_of_failed=rof)
            exact = ref_wait_exact(w, k)
            # exactness is judged on the re-delivery instant: with contention a due retry may additionally wait for a worker slot
            if k == 1 and (not contended or rt is not None) and exact is not None and abs(gap - exact) > 1e-9 and gap >= lb - 1e-9:
                world.violate("C06.first-retry-delay", f"first retry waited {gap}s; {w} documents {exact}s for the first retry "
                              f"(first chain strategy / initial delay)", cur["seq"], strategy=wk, index=index, rerun_of_failed=rof)
            if contended and start_gap > gap + 1e-9:
                world.probe("retry-waited-for-slot")
    if pol["stop"][0] == "any" and nretry:
        world.probe("retried-under-a-time-budget")
    if nretry >= 2:
        world.probe("retry>=2")
    for name in ("chain", "exp", "inc"):
        if name in wk.replace("expjitter", "").replace("randexp", ""):
            world.probe(name)
    if w[0] == "chain" and any(x[0] != "fixed" for x in w[1]):
        world.probe("chain-with-attempt-dependent-tail")
    if any(x in wk for x in ("random", "expjitter", "randexp")):
        world.probe("random-family")
    world._nt = nretry >= 2


def run(tape):
    return simulate(tape, CFG, check, gen=gen, nontrivial=lambda w, s, o: w._nt, check_on_cap=True)
