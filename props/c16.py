"""C16 — the stored event log is gap-free and resumable from any cursor."""
from __future__ import annotations

import asyncio

from sim.sqlite_seam import SEAM
from worlds import events as EV
from worlds import engine_common
from worlds.engine import gen_spec, uid_of
from worlds.server import ServerWorld
from worlds.simple import simulate_simple
from worlds.stores import TmpDir

ID = "C16"
LEVEL = "exploration"
QUICK_RUNS = 1200
THOROUGH_SECONDS = 600
RULE_TEXT = ("Leg 1 (store level, both backends on SimLoop): 1-3 appender tasks append 2-8 events (one terminal StopEvent at a "
             "tape-chosen position, possibly followed by more) with gaps on a millisecond grid that contains the SQLite "
             "poll_interval; one subscriber per cursor in -1..n is started (cursor dimension ENUMERATED per log) at tape-chosen "
             "instants before, during and after the appends; the same plan runs on MemoryWorkflowStore and SqliteWorkflowStore. "
             "Leg 2 (publication order): generated workflows on the full server stack; the stored log of the run is compared with "
             "the publish-side record of the outermost recording adapter. Leg 3 (HTTP cursors) is exercised by the C17 world. "
             "Non-trivial: (leg 1) a subscriber was waiting while an append happened; (leg 2) >=2 step contexts wrote to the stream "
             "concurrently; distinct = abstract trace shape.")
COMPONENTS = {"real": ["MemoryWorkflowStore / SqliteWorkflowStore append_event, query_events, subscribe_events; _ServerInternalRunAdapter.write_to_event_stream; server stack"],
              "stub": ["llama_index_instrumentation"], "sim": ["loop, clock, appender/subscriber tasks, recording adapter"]}
ASSUMPTIONS = ["append order = order of append_event calls (each call is atomic between awaits)",
               "a subscriber whose cursor is at or past the last terminal event may wait forever (statement: it ends right after the first terminal event it yields)"]
EXPECTED_PROBES = ["leg3-now-during-appends", "leg3-last-event-id-overrides", "leg3-204", "leg3-ndjson", "subscriber-waiting-during-append", "subscribe-after-terminal-appended", "events-after-terminal", "consumer-paused-between-events", "several-writer-store-objects", "leg2-concurrent-stream-writes", "sqlite-poll-wakeup"]
LEVEL_TEXT = "Seeded exploration of append/subscribe interleavings with the cursor dimension enumerated per log, plus a differential check of stored vs. published order on the server stack."
LEVEL_NOTE = "Trusted: simulator loop/clock, recording adapter."

T = 1.0 / 1024
CFG1 = {"quiesce_gap": 30.0}
CFG2 = {"driver": "finish", "p_stream": 70, "p_retry": 20, "p_fail": 15, "fan_max": 3, "backends": ["sqlite", "memory"], "idle_timeout": 60.0,
        "p_ask": 20}


def run(tape):
    leg = tape.draw(6, "leg")
    if leg in (0, 1):
        return _leg2(tape)
    if leg == 2:
        return _leg3(tape)
    return _leg1(tape)


def _leg1(tape):
    n = tape.rng_int(2, 8, "n")
    term_at = tape.rng_int(0, n - 1, "term.at") if tape.chance(85, 100, "has-term") else None
    n_app = tape.rng_int(1, 3, "appenders")
    poll = 256 * T
    gaps = [0, 0, T, 16 * T, poll - T, poll, poll + T, 2 * poll]
    plan = [{"i": i, "app": tape.draw(n_app, "who"), "gap": tape.choice(gaps, "gap"), "term": i == term_at, "noise": tape.chance(25, 100, "noise")} for i in range(n)]
    # "pause": what the consumer awaits between taking one event and asking for the next (an SSE writer, a slow client)
    subs = [{"cursor": c, "start": tape.choice(gaps + [3 * poll, 5 * poll], "sub.start") * tape.rng_int(0, 3, "sub.mul"),
             "pause": tape.choice([0, 0, 0, T, 16 * T, poll], "sub.pause")} for c in range(-1, n)]
    td = TmpDir()

    async def one_backend(world, name, store, writers=None):
        writers = writers or [store]
        from llama_agents.client.protocol.serializable_events import EventEnvelopeWithMetadata
        from workflows.events import StopEvent
        rid = "r-" + name
        appended = []
        waiting = [0]
        results = {}

        async def appender(a):
            writer = writers[a % len(writers)]      # each appender task is one writing process (its own store object, if several)
            for p in plan:
                if p["app"] != a:
                    continue
                if p["gap"]:
                    await asyncio.sleep(p["gap"])
                if p["noise"]:
                    # an unrelated run shares the store
                    await writer.append_event("other-run", EventEnvelopeWithMetadata.from_event(EV.E1(uid=1000 + p["i"])))
                ev = StopEvent(result=p["i"]) if p["term"] else EV.E0(uid=p["i"])
                appended.append(p["i"])
                if waiting[0]:
                    world.probe("subscriber-waiting-during-append")
                world.trace.log("append", be=name, i=p["i"], term=p["term"])
                await writer.append_event(rid, EventEnvelopeWithMetadata.from_event(ev))

        async def subscriber(sb):
            if sb["start"]:
                await asyncio.sleep(sb["start"])
            out = []
            results[sb["cursor"]] = {"out": out, "ended": False, "error": None}
            if any(plan[i]["term"] for i in appended):
                world.probe("subscribe-after-terminal-appended")
            waiting[0] += 1
            try:
                async for se in store.subscribe_events(rid, after_sequence=sb["cursor"]):
                    ident = se.event.value.get("uid") if se.event.type == "E0" else se.event.value.get("result")
                    out.append((se.sequence, ident))
                    world.trace.log("yield", be=name, cursor=sb["cursor"], seq=se.sequence)
                    if sb["pause"]:
                        world.probe("consumer-paused-between-events")
                        await asyncio.sleep(sb["pause"])
                results[sb["cursor"]]["ended"] = True
            except asyncio.CancelledError:
                raise
            except Exception as e:  # noqa: BLE001
                results[sb["cursor"]]["error"] = type(e).__name__
            finally:
                waiting[0] -= 1
        apps = [asyncio.ensure_future(appender(a)) for a in range(n_app)]
        tasks = apps + [asyncio.ensure_future(subscriber(sb)) for sb in subs]
        await asyncio.gather(*apps)
        # every subscriber has started by then + two full poll intervals for stores that only notice appends by polling
        # ... + the time the slowest consumer needs for its pauses
        await asyncio.sleep(max(sb["start"] for sb in subs) + 2.5 * poll + max(sb["pause"] for sb in subs) * (n + 2))
        log = [(e.sequence, e.event.value.get("uid") if e.event.type == "E0" else e.event.value.get("result")) for e in await store.query_events(rid)]
        for t in tasks:
            t.cancel()
        await asyncio.gather(*tasks, return_exceptions=True)
        # oracle
        if [s for s, _ in log] != list(range(len(log))) or [u for _, u in log] != appended:
            world.violate("C16.seq-gap", f"[{name}] stored log {log}; append order {appended}", backend=name)
        term_idx = next((k for k, (_, u) in enumerate(log) if plan[u]["term"]), None)
        if term_idx is not None and term_idx < len(log) - 1:
            world.probe("events-after-terminal")
        for c, r in results.items():
            tail = [x for x in log if x[0] > c]
            first_term = next((k for k, (_, u) in enumerate(tail) if plan[u]["term"]), None)
            want = tail if first_term is None else tail[:first_term + 1]
            got = r["out"]
            if r["error"]:
                world.violate("C16.sub-error", f"[{name}] subscriber(after={c}) raised {r['error']}", backend=name)
            if len(got) != len(set(got)):
                world.violate("C16.sub-dup", f"[{name}] subscriber(after={c}) yielded {got}", backend=name)
            elif got != want:
                if len(got) > len(want) and got[:len(want)] == want and first_term is not None:
                    world.violate("C16.sub-past-terminal", f"[{name}] subscriber(after={c}) went past the terminal event: {got}, expected {want}", backend=name)
                elif sorted(got) == sorted(want):
                    world.violate("C16.sub-order", f"[{name}] subscriber(after={c}) yielded {got}, expected {want}", backend=name)
                else:
                    world.violate("C16.sub-missing", f"[{name}] subscriber(after={c}) yielded {got}, expected {want} (log {log})", backend=name)
            if first_term is not None and not r["ended"] and got == want:
                world.violate("C16.sub-no-end", f"[{name}] subscriber(after={c}) received the terminal event but the iterator did not end", backend=name)
        return {c: (r["out"], r["ended"]) for c, r in results.items()}, log

    async def scenario(world):
        from llama_agents.server._store.memory_workflow_store import MemoryWorkflowStore
        from llama_agents.server._store.sqlite.sqlite_workflow_store import SqliteWorkflowStore
        rm, lm = await one_backend(world, "memory", MemoryWorkflowStore())
        reader = SqliteWorkflowStore(td.db(), poll_interval=256 * T)
        others = None
        if world.tape.chance(40, 100, "second-store-object"):
            # appends come from other store objects on the same file (other replicas / processes): only polling sees them; with
            # several appender tasks each one writes through its own store object
            others = [SqliteWorkflowStore(td.db(), poll_interval=256 * T) for _ in range(1 + world.tape.draw(2, "writer-objects"))]
            world.probe("sqlite-poll-wakeup")
            if len(others) > 1 and n_app > 1:
                world.probe("several-writer-store-objects")
        rs, ls = await one_backend(world, "sqlite", reader, writers=others)
        # same-instant ties between appenders are ordered by tape draws, which differ between the two sub-runs: the two
        # backends are comparable only when both logs came out in the same append order
        if not world.violations and lm == ls and rm != rs:
            diff = [c for c in rm if rm[c] != rs.get(c)]
            world.violate("C16.backend-diff", f"subscribers {diff}: memory {[rm[c] for c in diff][:2]} vs sqlite {[rs.get(c) for c in diff][:2]}")
        return None
    try:
        return simulate_simple(tape, CFG1, scenario, None, nontrivial=lambda w, o: bool(w.probes.get("subscriber-waiting-during-append")),
                               sample=lambda w, o: {"leg": 1, "plan": plan, "subscribers": subs})
    finally:
        td.close()


def _leg2(tape):
    async def scenario(world, spec):
        inc = world.new_incarnation()
        wf = inc.add_workflow("wf", spec)
        await inc.start()
        start = EV.Start0(uid=world.uid())
        hd = await inc.call(inc.service.start_workflow(wf, "h1", start_event=start))
        await world.loop.quiesce()
        try:
            await inc.call(inc.service.send_event("h1", EV.Fin(uid=world.uid())))
        except BaseException:  # noqa: BLE001
            pass
        await world.loop.quiesce()
        stored = await inc.store.query_events(hd.run_id)
        world._stored = [(e.sequence, e.event.type, e.event.value.get("uid")) for e in stored]
        world._run = hd.run_id
        return {}

    def check(world, spec, outcome):
        pubs = [(f["ev"], f.get("uid")) for _, _, k, f in world.trace.recs if k == "publish" and f.get("run") == world._run]
        stored = world._stored
        if [s for s, _, _ in stored] != list(range(len(stored))):
            world.violate("C16.seq-gap", f"stored sequences {[s for s, _, _ in stored]}", backend=world.backend, leg=2)
        a = [(t, u) for _, t, u in stored]
        b = [(t if t != "Stop1" else t, u) for t, u in pubs]
        if a != b:
            k = next((i for i in range(min(len(a), len(b))) if a[i] != b[i]), min(len(a), len(b)))
            world.violate("C16.publication-order", f"stored log differs from publication order at index {k}: stored {a[k:k + 3]} vs published {b[k:k + 3]} "
                          f"(lengths {len(a)}/{len(b)})", backend=world.backend, how="missing" if len(a) < len(b) else ("extra" if len(a) > len(b) else "order"))
        # concurrent stream writers
        open_b = 0
        conc = False
        for _, _, k, f in world.trace.recs:
            if k == "enter":
                open_b += 1
            elif k == "exit":
                open_b -= 1
            elif k == "emit" and f.get("via") == "stream" and open_b >= 2:
                conc = True
        if conc:
            world.probe("leg2-concurrent-stream-writes")
        world._nt = conc
    return engine_common.simulate(tape, CFG2, check, gen=gen_spec, scenario=scenario, nontrivial=lambda w, s, o: w._nt, world_cls=ServerWorld)


def _leg3(tape):
    """HTTP cursor resolution: now / integer / Last-Event-ID through the real endpoint (no wire faults)."""
    import json as _json
    from worlds.net import ConnPlan, NetWorld
    n = tape.rng_int(1, 7, "n")
    has_term = tape.chance(80, 100, "has-term")
    poll = 64 * T
    gaps = [0, 0, T, 8 * T, poll - T, poll, poll + T]
    plan = [{"i": i, "gap": tape.choice(gaps, "gap"), "term": has_term and i == n - 1} for i in range(n)]
    readers = []
    for k in range(tape.rng_int(1, 3, "readers")):
        readers.append({"who": f"r{k}", "after": tape.choice(["absent", "now", "now", "int", "int", "bad"], "after"), "k": tape.rng_int(-1, n, "k"),
                        "lei": tape.choice(["absent", "absent", "int", "garbage"], "lei"), "j": tape.rng_int(-1, n, "j"),
                        "sse": tape.chance(75, 100, "sse"), "start": tape.choice(gaps + [3 * poll], "start") * tape.rng_int(0, 3, "start.mul")})

    async def scenario(world):
        import httpx
        from llama_agents.client.protocol.serializable_events import EventEnvelopeWithMetadata
        from llama_agents.server._store.abstract_workflow_store import PersistentHandler
        inc = world.new_incarnation()
        await inc.start()
        api = world.make_api(inc, sse_heartbeat_interval=tape.choice([None, 16 * T], "heartbeat"))
        await inc.call(inc.store.update(PersistentHandler(handler_id="h1", workflow_name="wf", status="running", run_id="r1")))
        _, tr, hc = world.make_client(inc, api, lambda *a: ConnPlan())
        appended = [-1]
        appending = [False]

        async def appender():
            appending[0] = True
            for p in plan:
                if p["gap"]:
                    await asyncio.sleep(p["gap"])
                ev = EV.Stop1(uid=p["i"]) if p["term"] else EV.E0(uid=p["i"])
                await inc.store.append_event("r1", EventEnvelopeWithMetadata.from_event(ev))
                appended[0] = p["i"]
                world.trace.log("append", i=p["i"], term=p["term"])
            appending[0] = False

        async def reader(r, res):
            if r["start"]:
                await asyncio.sleep(r["start"])
            params = {"sse": "true" if r["sse"] else "false"}
            if r["after"] == "now":
                params["after_sequence"] = "now"
            elif r["after"] == "int":
                params["after_sequence"] = str(r["k"])
            elif r["after"] == "bad":
                params["after_sequence"] = "soon"
            headers = {}
            if r["lei"] == "int":
                headers["Last-Event-ID"] = str(r["j"])
            elif r["lei"] == "garbage":
                headers["Last-Event-ID"] = "abc"
            res.update({"at_request": appended[0], "during": appending[0], "items": [], "status": None, "ended": False, "started": True})
            world.trace.log("http-request", who=r["who"], after=params.get("after_sequence"), lei=headers.get("Last-Event-ID"), sse=r["sse"], at=appended[0])
            async with hc.stream("GET", "/events/h1", params=params, headers=headers, timeout=None) as resp:
                res["status"] = resp.status_code
                res["at_response"] = appended[0]
                world.trace.log("http-response", who=r["who"], status=resp.status_code, at=appended[0])
                if resp.status_code != 200:
                    await resp.aread()
                    res["ended"] = True
                    return
                cur = None
                async for line in resp.aiter_lines():
                    line = line.strip()
                    if not line or line.startswith(":"):
                        continue
                    if r["sse"]:
                        if line.startswith("id:"):
                            cur = line[3:].strip()
                        elif line.startswith("data:"):
                            res["items"].append((int(cur) if cur is not None else None, _json.loads(line[5:])["value"].get("uid")))
                            cur = None
                    else:
                        res["items"].append((None, _json.loads(line)["value"].get("uid")))
                    if res["items"] and cur is None:
                        world.trace.log("http-item", who=r["who"], item=list(res["items"][-1]))
                res["ended"] = True
        results = [{} for _ in readers]
        tasks = [asyncio.ensure_future(reader(r, res)) for r, res in zip(readers, results)]
        await inc.call(appender())
        await asyncio.sleep(max(r["start"] for r in readers) + 6 * poll)
        for t in tasks:
            t.cancel()
        errs = await asyncio.gather(*tasks, return_exceptions=True)
        await hc.aclose()
        log = [(e.sequence, e.event.value.get("uid"), "StopEvent" in ((e.event.types or []) + [e.event.type])) for e in await inc.call(inc.store.query_events("r1"))]
        be = world.backend
        for r, res, err in zip(readers, results, errs):
            if isinstance(err, BaseException) and not isinstance(err, asyncio.CancelledError):
                world.violate("C16.http-error", f"{r['who']}: request raised {type(err).__name__}: {str(err)[:100]}", leg=3)
                continue
            if not res.get("started"):
                continue
            if r["after"] == "bad" and r["lei"] != "int":
                # an invalid after_sequence is rejected unless a valid Last-Event-ID ... the endpoint validates after_sequence first
                if res["status"] != 400:
                    world.violate("C16.http-bad-cursor", f"{r['who']}: after_sequence='soon' answered {res['status']}", leg=3)
                continue
            if r["after"] == "bad":
                if res["status"] == 400:
                    continue
            # effective cursor
            if r["lei"] == "int" and r["sse"]:
                cands = [r["j"]]
                world.probe("leg3-last-event-id-overrides")
            elif r["after"] == "int":
                cands = [r["k"]]
            else:
                lo = res["at_request"]
                hi = res.get("at_response", appended[0])
                cands = list(range(lo, hi + 1))
                if res["during"]:
                    world.probe("leg3-now-during-appends")
            if not r["sse"]:
                world.probe("leg3-ndjson")
            ok = False
            wants = []
            for c in cands:
                tail = [x for x in log if x[0] > c]
                ft = next((k for k, x in enumerate(tail) if x[2]), None)
                want = tail if ft is None else tail[:ft + 1]
                wants.append((c, want))
                got = res["items"]
                same = [g[1] for g in got] == [x[1] for x in want] and (not r["sse"] or [g[0] for g in got] == [x[0] for x in want])
                if res["status"] == 204:
                    world.probe("leg3-204")
                    same = not want and any(x[2] for x in log)
                elif res["status"] != 200:
                    same = False
                elif want and want[-1][2] and not res["ended"]:
                    same = False
                if same:
                    ok = True
                    break
            if not ok:
                world.violate("C16.http-cursor", f"[{be}] {r['who']} after_sequence={r['after']}({r['k']}) Last-Event-ID={r['lei']}({r['j']}) sse={r['sse']}: status {res['status']}, "
                              f"items {res['items']}, ended={res['ended']}; acceptable (cursor, items): {[(c, [(x[0], x[1]) for x in w_]) for c, w_ in wants][:3]}; log {log}",
                              leg=3, after=r["after"], lei=r["lei"], sse=r["sse"])
        return None

    from sim.loop import SimCap, SimDeadlock
    import os
    world = NetWorld(tape, {"quiesce_gap": 30.0, "poll_interval": poll, "backends": ["memory", "sqlite"], "max_steps": 200_000})
    harness = None
    try:
        try:
            world.loop.run_sim(scenario(world))
        except SimCap as e:
            harness = f"cap: {e}"
        except SimDeadlock as e:
            harness = f"deadlock: {e}"
        nt = harness is None and bool(world.probes.get("leg3-now-during-appends") or world.probes.get("leg3-last-event-id-overrides"))
        res = {"violations": world.violations, "harness": harness, "nontrivial": nt, "shape": world.trace.shape(("who", "after", "lei", "status", "sse")),
               "faults": dict(world.faults), "probes": dict(world.probes), "sim_time": world.clock.t, "steps": world.loop.steps,
               "digest": world.trace.digest(), "states": [], "evals": 1}
        want_t = bool(os.environ.get("VERIF_WANT_TRACE"))
        if nt or world.violations or want_t:
            res["sample"] = {"config": {"leg": 3, "backend": world.backend, "plan": plan, "readers": readers}, "trace_excerpt": world.trace.excerpt(40)}
        if world.violations or want_t:
            res["trace_excerpt"] = world.trace.excerpt(400)
        return res
    finally:
        world.close()
