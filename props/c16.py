"""C16 — the stored event log is gap-free and resumable from any cursor."""
from __future__ import annotations

import asyncio

from sim.sqlite_seam import SEAM
from worlds import events as EV
from worlds import engine_common
from worlds.engine import gen_spec, uid_of
from worlds.server import ServerWorld
from worlds.simple import simulate_simple
from worlds.stores import TmpDir

ID = "C16"
LEVEL = "exploration"
QUICK_RUNS = 1200
THOROUGH_SECONDS = 600
RULE_TEXT = ("Leg 1 (store level, both backends on SimLoop): 1-3 appender tasks append 2-8 events (one terminal StopEvent at a "
             "tape-chosen position, possibly followed by more) with gaps on a millisecond grid that contains the SQLite "
             "poll_interval; one subscriber per cursor in -1..n is started (cursor dimension ENUMERATED per log) at tape-chosen "
             "instants before, during and after the appends; the same plan runs on MemoryWorkflowStore and SqliteWorkflowStore. "
             "Leg 2 (publication order): generated workflows on the full server stack; the stored log of the run is compared with "
             "the publish-side record of the outermost recording adapter. Leg 3 (HTTP cursors) is exercised by the C17 world. "
             "Non-trivial: (leg 1) a subscriber was waiting while an append happened; (leg 2) >=2 step contexts wrote to the stream "
             "concurrently; distinct = abstract trace shape.")
COMPONENTS = {"real": ["MemoryWorkflowStore / SqliteWorkflowStore append_event, query_events, subscribe_events; _ServerInternalRunAdapter.write_to_event_stream; server stack"],
              "stub": ["llama_index_instrumentation"], "sim": ["loop, clock, appender/subscriber tasks, recording adapter"]}
ASSUMPTIONS = ["append order = order of append_event calls (each call is atomic between awaits)",
               "a subscriber whose cursor is at or past the last terminal event may wait forever (statement: it ends right after the first terminal event it yields)"]
EXPECTED_PROBES = ["subscriber-waiting-during-append", "subscribe-after-terminal-appended", "events-after-terminal", "leg2-concurrent-stream-writes", "sqlite-poll-wakeup"]
LEVEL_TEXT = "Seeded exploration of append/subscribe interleavings with the cursor dimension enumerated per log, plus a differential check of stored vs. published order on the server stack."
LEVEL_NOTE = "Trusted: simulator loop/clock, recording adapter."

T = 1.0 / 1024
CFG1 = {"quiesce_gap": 30.0}
CFG2 = {"driver": "finish", "p_stream": 70, "p_retry": 20, "p_fail": 15, "fan_max": 3, "backends": ["sqlite", "memory"], "idle_timeout": 60.0,
        "p_ask": 20}


def run(tape):
    if tape.draw(3, "leg") == 0:
        return _leg2(tape)
    return _leg1(tape)


def _leg1(tape):
    n = tape.rng_int(2, 8, "n")
    term_at = tape.rng_int(0, n - 1, "term.at") if tape.chance(85, 100, "has-term") else None
    n_app = tape.rng_int(1, 3, "appenders")
    poll = 256 * T
    gaps = [0, 0, T, 16 * T, poll - T, poll, poll + T, 2 * poll]
    plan = [{"i": i, "app": tape.draw(n_app, "who"), "gap": tape.choice(gaps, "gap"), "term": i == term_at, "noise": tape.chance(25, 100, "noise")} for i in range(n)]
    subs = [{"cursor": c, "start": tape.choice(gaps + [3 * poll, 5 * poll], "sub.start") * tape.rng_int(0, 3, "sub.mul")} for c in range(-1, n)]
    td = TmpDir()

    async def one_backend(world, name, store, writer=None):
        writer = writer or store
        from llama_agents.client.protocol.serializable_events import EventEnvelopeWithMetadata
        from workflows.events import StopEvent
        rid = "r-" + name
        appended = []
        waiting = [0]
        results = {}

        async def appender(a):
            for p in plan:
                if p["app"] != a:
                    continue
                if p["gap"]:
                    await asyncio.sleep(p["gap"])
                if p["noise"]:
                    # an unrelated run shares the store
                    await writer.append_event("other-run", EventEnvelopeWithMetadata.from_event(EV.E1(uid=1000 + p["i"])))
                ev = StopEvent(result=p["i"]) if p["term"] else EV.E0(uid=p["i"])
                appended.append(p["i"])
                if waiting[0]:
                    world.probe("subscriber-waiting-during-append")
                world.trace.log("append", be=name, i=p["i"], term=p["term"])
                await writer.append_event(rid, EventEnvelopeWithMetadata.from_event(ev))

        async def subscriber(sb):
            if sb["start"]:
                await asyncio.sleep(sb["start"])
            out = []
            results[sb["cursor"]] = {"out": out, "ended": False, "error": None}
            if any(plan[i]["term"] for i in appended):
                world.probe("subscribe-after-terminal-appended")
            waiting[0] += 1
            try:
                async for se in store.subscribe_events(rid, after_sequence=sb["cursor"]):
                    ident = se.event.value.get("uid") if se.event.type == "E0" else se.event.value.get("result")
                    out.append((se.sequence, ident))
                    world.trace.log("yield", be=name, cursor=sb["cursor"], seq=se.sequence)
                results[sb["cursor"]]["ended"] = True
            except asyncio.CancelledError:
                raise
            except Exception as e:  # noqa: BLE001
                results[sb["cursor"]]["error"] = type(e).__name__
            finally:
                waiting[0] -= 1
        apps = [asyncio.ensure_future(appender(a)) for a in range(n_app)]
        tasks = apps + [asyncio.ensure_future(subscriber(sb)) for sb in subs]
        await asyncio.gather(*apps)
        # every subscriber has started by then + two full poll intervals for stores that only notice appends by polling
        await asyncio.sleep(max(sb["start"] for sb in subs) + 2.5 * poll)
        log = [(e.sequence, e.event.value.get("uid") if e.event.type == "E0" else e.event.value.get("result")) for e in await store.query_events(rid)]
        for t in tasks:
            t.cancel()
        await asyncio.gather(*tasks, return_exceptions=True)
        # oracle
        if [s for s, _ in log] != list(range(len(log))) or [u for _, u in log] != appended:
            world.violate("C16.seq-gap", f"[{name}] stored log {log}; append order {appended}", backend=name)
        term_idx = next((k for k, (_, u) in enumerate(log) if plan[u]["term"]), None)
        if term_idx is not None and term_idx < len(log) - 1:
            world.probe("events-after-terminal")
        for c, r in results.items():
            tail = [x for x in log if x[0] > c]
            first_term = next((k for k, (_, u) in enumerate(tail) if plan[u]["term"]), None)
            want = tail if first_term is None else tail[:first_term + 1]
            got = r["out"]
            if r["error"]:
                world.violate("C16.sub-error", f"[{name}] subscriber(after={c}) raised {r['error']}", backend=name)
            if len(got) != len(set(got)):
                world.violate("C16.sub-dup", f"[{name}] subscriber(after={c}) yielded {got}", backend=name)
            elif got != want:
                if len(got) > len(want) and got[:len(want)] == want and first_term is not None:
                    world.violate("C16.sub-past-terminal", f"[{name}] subscriber(after={c}) went past the terminal event: {got}, expected {want}", backend=name)
                elif sorted(got) == sorted(want):
                    world.violate("C16.sub-order", f"[{name}] subscriber(after={c}) yielded {got}, expected {want}", backend=name)
                else:
                    world.violate("C16.sub-missing", f"[{name}] subscriber(after={c}) yielded {got}, expected {want} (log {log})", backend=name)
            if first_term is not None and not r["ended"] and got == want:
                world.violate("C16.sub-no-end", f"[{name}] subscriber(after={c}) received the terminal event but the iterator did not end", backend=name)
        return {c: (r["out"], r["ended"]) for c, r in results.items()}, log

    async def scenario(world):
        from llama_agents.server._store.memory_workflow_store import MemoryWorkflowStore
        from llama_agents.server._store.sqlite.sqlite_workflow_store import SqliteWorkflowStore
        rm, lm = await one_backend(world, "memory", MemoryWorkflowStore())
        reader = SqliteWorkflowStore(td.db(), poll_interval=256 * T)
        other = None
        if world.tape.chance(40, 100, "second-store-object"):
            # appends come from another store object on the same file (another replica / process): only polling sees them
            other = SqliteWorkflowStore(td.db(), poll_interval=256 * T)
            world.probe("sqlite-poll-wakeup")
        rs, ls = await one_backend(world, "sqlite", reader, writer=other)
        # same-instant ties between appenders are ordered by tape draws, which differ between the two sub-runs: the two
        # backends are comparable only when both logs came out in the same append order
        if not world.violations and lm == ls and rm != rs:
            diff = [c for c in rm if rm[c] != rs.get(c)]
            world.violate("C16.backend-diff", f"subscribers {diff}: memory {[rm[c] for c in diff][:2]} vs sqlite {[rs.get(c) for c in diff][:2]}")
        return None
    try:
        return simulate_simple(tape, CFG1, scenario, None, nontrivial=lambda w, o: bool(w.probes.get("subscriber-waiting-during-append")),
                               sample=lambda w, o: {"leg": 1, "plan": plan, "subscribers": subs})
    finally:
        td.close()


def _leg2(tape):
    async def scenario(world, spec):
        inc = world.new_incarnation()
        wf = inc.add_workflow("wf", spec)
        await inc.start()
        start = EV.Start0(uid=world.uid())
        hd = await inc.call(inc.service.start_workflow(wf, "h1", start_event=start))
        await world.loop.quiesce()
        try:
            await inc.call(inc.service.send_event("h1", EV.Fin(uid=world.uid())))
        except BaseException:  # noqa: BLE001
            pass
        await world.loop.quiesce()
        stored = await inc.store.query_events(hd.run_id)
        world._stored = [(e.sequence, e.event.type, e.event.value.get("uid")) for e in stored]
        world._run = hd.run_id
        return {}

    def check(world, spec, outcome):
        pubs = [(f["ev"], f.get("uid")) for _, _, k, f in world.trace.recs if k == "publish" and f.get("run") == world._run]
        stored = world._stored
        if [s for s, _, _ in stored] != list(range(len(stored))):
            world.violate("C16.seq-gap", f"stored sequences {[s for s, _, _ in stored]}", backend=world.backend, leg=2)
        a = [(t, u) for _, t, u in stored]
        b = [(t if t != "Stop1" else t, u) for t, u in pubs]
        if a != b:
            k = next((i for i in range(min(len(a), len(b))) if a[i] != b[i]), min(len(a), len(b)))
            world.violate("C16.publication-order", f"stored log differs from publication order at index {k}: stored {a[k:k + 3]} vs published {b[k:k + 3]} "
                          f"(lengths {len(a)}/{len(b)})", backend=world.backend, how="missing" if len(a) < len(b) else ("extra" if len(a) > len(b) else "order"))
        # concurrent stream writers
        open_b = 0
        conc = False
        for _, _, k, f in world.trace.recs:
            if k == "enter":
                open_b += 1
            elif k == "exit":
                open_b -= 1
            elif k == "emit" and f.get("via") == "stream" and open_b >= 2:
                conc = True
        if conc:
            world.probe("leg2-concurrent-stream-writes")
        world._nt = conc
    return engine_common.simulate(tape, CFG2, check, gen=gen_spec, scenario=scenario, nontrivial=lambda w, s, o: w._nt, world_cls=ServerWorld)
