"""C28 — SQLite schema migrations converge from any earlier schema."""
from __future__ import annotations

import os
import shutil
import sqlite3
import sys

from worlds.stores import TmpDir

ID = "C28"
LEVEL = "fault_enumeration"
THOROUGH_SECONDS = 300
RULE_TEXT = ("ENUMERATED starting states x configurations: fresh file; database left by the real runner after the first k "
             "migrations (k=1..N, built with a k-file copy of the migrations package); legacy database built by executing the "
             "first k .sql files raw with PRAGMA user_version=k and no schema_migrations table; x source lists (server only, "
             "server+dbos) x connection mode (per-call, single_connection). Then run the real migrations, reopen, run again. "
             "Crash fault: for every starting state the migration run is also executed in a forked child that is killed "
             "(os._exit) at the j-th SQL statement, j ENUMERATED over all statements of that run; the parent reopens the file "
             "(real SQLite journal/WAL recovery) and migrates. Each (start, sources, mode, crash point) is one evaluation; "
             "non-trivial = the start state is not the final schema; distinct = case id."
             " After each uncrashed case the starting state is restored over the already migrated path (file deleted / older image written) and migrated again in the same process.")
COMPONENTS = {"real": ["sqlite/migrate.run_migrations, migration_utils, SqliteWorkflowStore._run_migrations, packaged .sql files of server and dbos, stdlib sqlite3 + real files, real process kill"],
              "stub": [], "sim": ["case enumerator"]}
ASSUMPTIONS = ["process crash only (kill at a statement boundary); power loss / torn pages are out of scope",
               "a crash image is judged only through the final schema after re-running the migrations"]
EXPECTED_PROBES = ["legacy-user_version", "prefix-by-runner", "crash-mid-migration", "dbos-sources"]
LEVEL_TEXT = ("Fault enumeration: exhaustive over starting schema versions, legacy/prefix forms, source lists, connection modes and "
              "statement-level crash points of each migration run; no sampling.")
LEVEL_NOTE = "Trusted: sqlite3 trace callback fires once per statement; normalisation of sqlite_master (whitespace-insensitive SQL text)."
EVIDENCE_EXTRA = {"exhaustive": True, "enumerated_dimension": "start state x sources x connection mode x crash statement index"}
CHUNK = 4


def _server_files():
    from llama_agents.server._store import SQLITE_MIGRATION_SOURCE
    from llama_agents.server._store.migration_utils import iter_migration_files
    return iter_migration_files(SQLITE_MIGRATION_SOURCE[1])


_FROZEN = os.path.join(os.path.dirname(os.path.dirname(os.path.abspath(__file__))), "fixtures", "released_migrations", "server")


def _start_files():
    """Migration files that built the databases which exist in the field: the RELEASED files (frozen copy of the pinned commit,
    /verif/fixtures/released_migrations) for every version that had been released, the working tree's file for newer ones.
    Start states built from the working tree alone could never notice an edit to an already released migration."""
    import pathlib
    out = []
    for f in _server_files():
        fr = pathlib.Path(_FROZEN) / f.name
        out.append(fr if fr.exists() else f)
    return out


def cases():
    n = len(_server_files())
    out = []
    for sources in ("server", "server+dbos"):
        for mode in ("percall", "single"):
            out.append(("fresh", 0, sources, mode))
            for k in range(1, n + 1):
                out.append(("runner", k, sources, mode))
                out.append(("legacy", k, sources, mode))
    return out


def _quick_runs():
    from sim import boot
    boot.boot()
    return len(cases())


class _Lazy:
    def __index__(self):
        return _quick_runs()

    def __int__(self):
        return _quick_runs()


def _sources(kind):
    from llama_agents.server._store import SQLITE_MIGRATION_SOURCE as S
    out = [S]
    if kind == "server+dbos":
        from llama_agents.dbos._store import SQLITE_MIGRATION_SOURCE as D
        out.append(D)
    return out


def _schema(path, mode="percall"):
    conn = _open(path, mode)
    try:
        rows = conn.execute("SELECT type, name, tbl_name, sql FROM sqlite_master WHERE name NOT LIKE 'sqlite_%' ORDER BY type, name").fetchall()
        mig = conn.execute("SELECT package, version FROM schema_migrations ORDER BY package, version").fetchall() \
            if any(r[1] == "schema_migrations" for r in rows) else None
        cols = {r[1]: [c[1:3] for c in conn.execute(f"PRAGMA table_info({r[1]})").fetchall()] for r in rows if r[0] == "table"}
        uv = conn.execute("PRAGMA user_version").fetchone()[0]
        return {"user_version": uv, "objects": [(r[0], r[1], " ".join((r[3] or "").split())) for r in rows if r[0] != "table"] + [("table", t, sorted(map(tuple, c))) for t, c in sorted(cols.items())],
                "versions": mig}
    finally:
        conn.close()


def _raw_reference(path, sources_kind):
    import glob
    import importlib
    import re
    conn = sqlite3.connect(path)
    versions = []
    try:
        for pkg_name, mod in _sources(sources_kind):
            d = list(importlib.import_module(mod).__path__)[0]
            for f in sorted(glob.glob(os.path.join(d, "*.sql"))):
                text = open(f).read()
                m = re.search(r"--\s*migration:\s*(\d+)", text.splitlines()[0] if text else "")
                conn.executescript(text)
                versions.append((pkg_name, int(m.group(1)) if m else len(versions) + 1))
        conn.commit()
    finally:
        conn.close()
    sc = _schema(path)
    return {"objects": sc["objects"], "versions": sorted(versions)}


def _open(path, mode):
    if mode == "single":
        from llama_agents.server._store.sqlite.sqlite_workflow_store import SqliteWorkflowStore
        return SqliteWorkflowStore._open_nolock(path)
    return sqlite3.connect(path, timeout=30.0)


def _build_start(td, kind, k, mode="percall", name="m.db"):
    from llama_agents.server._store.sqlite.migrate import run_migrations
    path = td.db(name)
    files = _start_files()
    if kind == "fresh":
        return path
    conn = _open(path, mode)
    try:
        if kind == "legacy":
            for f in files[:k]:
                conn.executescript(f.read_text())
            conn.execute(f"PRAGMA user_version = {k}")
            conn.commit()
        else:
            pkgdir = os.path.join(td.path, f"migpkg_{k}")
            os.makedirs(pkgdir, exist_ok=True)
            open(os.path.join(pkgdir, "__init__.py"), "w").close()
            for f in files[:k]:
                with open(os.path.join(pkgdir, f.name), "w") as out:
                    out.write(f.read_text())
            sys.path.insert(0, td.path)
            try:
                run_migrations(conn, sources=[("server", f"migpkg_{k}")])
                conn.commit()
            finally:
                sys.path.remove(td.path)
                sys.modules.pop(f"migpkg_{k}", None)
    finally:
        conn.close()
    return path


def _migrate(path, sources, mode, crash_at=None):
    """run the real migrations; returns number of statements traced"""
    from llama_agents.server._store.sqlite.migrate import run_migrations
    count = [0]

    def trace(stmt):
        count[0] += 1
        if crash_at is not None and count[0] >= crash_at:
            os._exit(77)
    conn = _open(path, mode)
    try:
        conn.set_trace_callback(trace)
        run_migrations(conn, sources=_sources(sources))
        conn.commit()
    finally:
        conn.set_trace_callback(None)
        conn.close()
    return count[0]


def _sig(sc):
    return repr((sc["objects"], sc["versions"], sc.get("user_version")))


def _partial_of(img, ref):
    """a crash image that is a migration-prefix state of the runner: recorded versions == applied prefix"""
    vers = img["versions"]
    if vers is None:
        return False
    # every recorded (package, version) row is also in the reference, and the objects are a subset of the reference objects
    names = {(o[0], o[1]) for o in ref["objects"]}
    uv = img["user_version"]
    seeded = all(("server", v) in set(vers) for v in range(1, uv + 1))      # a bootstrapped legacy database lists its legacy versions
    return set(vers) <= set(ref["versions"] or []) and all((o[0], o[1]) in names for o in img["objects"]) and seeded


def run_indexed(idx, tape):
    cs = cases()
    kind, k, sources, mode = cs[idx % len(cs)]
    violations = []
    probes = {}
    faults = {}
    evals = 0
    nts = set()
    case = f"{kind}:{k}:{sources}:{mode}"

    def violate(rule, msg, **cause):
        violations.append({"rule": rule, "cause": cause, "seq": 0, "msg": f"[{case}] {msg}"})
    if kind == "legacy":
        probes["legacy-user_version"] = 1
    if kind == "runner":
        probes["prefix-by-runner"] = 1
    if sources == "server+dbos":
        probes["dbos-sources"] = 1
    # reference: fresh database migrated once
    tdr = TmpDir()
    try:
        try:
            _migrate(tdr.db("ref.db"), sources, mode)
        except Exception as e:  # noqa: BLE001
            violate("C28.migration-raises", f"migrating a fresh database raised {type(e).__name__}: {e}", crash=False)
            return {"violations": violations, "harness": None, "nontrivial": False, "shape": case, "faults": faults, "probes": probes,
                    "sim_time": 0.0, "steps": 0, "digest": case, "evals": 1}
        ref = _schema(tdr.db("ref.db"), mode)
        # independent reference: the shipped .sql scripts of every source executed raw, in file order, on an empty database; the
        # runner's fresh result must have exactly those objects and one bookkeeping row per (package, script)
        raw = _raw_reference(tdr.db("raw.db"), sources)
        objs = [o for o in ref["objects"] if o[1] != "schema_migrations" and "schema_migrations" not in str(o[1])]
        if objs != raw["objects"] or sorted(map(tuple, ref["versions"] or [])) != raw["versions"]:
            missing = [o[:2] for o in raw["objects"] if o not in objs]
            extra = [o[:2] for o in objs if o not in raw["objects"]]
            violate("C28.schema-diff", f"a fresh migration does not equal the shipped scripts executed in order: missing {missing[:4]}, extra {extra[:4]}; "
                    f"bookkeeping rows {ref['versions']} vs expected {raw['versions']}", crash=False, start="fresh-vs-scripts")
        # signatures of every enumerated (in-scope) state, to classify crash images
        n_files = len(_server_files())
        in_scope = [_sig(ref)]
        for kk in range(1, n_files + 1):
            for kd in ("runner", "legacy"):
                pth = _build_start(tdr, kd, kk, mode, name=f"s_{kd}_{kk}.db")
                in_scope.append(_sig(_schema(pth, mode)))
        in_scope.append(_sig({"objects": [], "versions": None, "user_version": 0}))
    finally:
        tdr.close()

    def one(crash_at):
        nonlocal evals
        td = TmpDir()
        try:
            path = _build_start(td, kind, k, mode)
            start_schema = _schema(path, mode) if os.path.exists(path) else None
            if crash_at is not None:
                pid = os.fork()
                if pid == 0:
                    try:
                        _migrate(path, sources, mode, crash_at=crash_at)
                    finally:
                        os._exit(0)
                _, status = os.waitpid(pid, 0)
                if os.WEXITSTATUS(status) == 77:
                    faults["crash-at-statement"] = faults.get("crash-at-statement", 0) + 1
                    probes["crash-mid-migration"] = probes.get("crash-mid-migration", 0) + 1
                img = _schema(path, mode) if os.path.exists(path) else {"objects": [], "versions": None, "user_version": 0}
                if _sig(img) not in in_scope and not _partial_of(img, ref):
                    # the crash left a state the property does not list as a starting state (e.g. schema_migrations
                    # created but not yet seeded): observed and counted, never judged
                    probes["crash-image-out-of-scope"] = probes.get("crash-image-out-of-scope", 0) + 1
                    oos.append((crash_at, {"versions": img["versions"], "user_version": img["user_version"]}))
                    return 0
            try:
                n_stmts = _migrate(path, sources, mode)
            except Exception as e:  # noqa: BLE001
                violate("C28.migration-raises", f"crash_at={crash_at}: migrating raised {type(e).__name__}: {e}", crash=crash_at is not None)
                return 0
            s1 = _schema(path, mode)
            evals += 1
            if s1["objects"] != ref["objects"]:
                diff = [o for o in s1["objects"] if o not in ref["objects"]] + [o for o in ref["objects"] if o not in s1["objects"]]
                violate("C28.schema-diff", f"crash_at={crash_at}: final schema differs from a fresh migration: {diff[:3]}", crash=crash_at is not None, start=kind)
            vers = s1["versions"] or []
            if len(vers) != len(set(vers)) or sorted(set(vers)) != sorted(set(ref["versions"] or [])):
                violate("C28.version-rows", f"crash_at={crash_at}: schema_migrations rows {vers}, expected {ref['versions']}", crash=crash_at is not None, start=kind)
            try:
                _migrate(path, sources, mode)
                s2 = _schema(path, mode)
                if s2 != s1:
                    violate("C28.not-idempotent", f"crash_at={crash_at}: running the migrations again changed the database", crash=crash_at is not None, start=kind)
            except Exception as e:  # noqa: BLE001
                violate("C28.not-idempotent", f"crash_at={crash_at}: second migration run raised {type(e).__name__}: {e}", crash=crash_at is not None, start=kind)
            if start_schema is None or start_schema.get("objects") != ref["objects"]:
                nts.add(f"{case}:crash={crash_at}")
            if crash_at is None:
                # the same path is taken over by the starting state again (file deleted / an older backup restored over it) while this
                # process lives: it is a starting state like any other
                for ext in ("", "-wal", "-shm", "-journal"):
                    if os.path.exists(path + ext):
                        os.remove(path + ext)
                path = _build_start(td, kind, k, mode)
                probes["same-path-restored-and-migrated-again"] = probes.get("same-path-restored-and-migrated-again", 0) + 1
                try:
                    _migrate(path, sources, mode)
                    s3 = _schema(path, mode)
                    evals += 1
                    if s3["objects"] != ref["objects"] or sorted(set(s3["versions"] or [])) != sorted(set(ref["versions"] or [])):
                        violate("C28.schema-diff", f"the starting state restored over an already migrated path and migrated again in the same process: schema/bookkeeping differ from a "
                                f"fresh migration (rows {s3['versions']}, expected {ref['versions']})", crash=False, start=kind, restored=True)
                except Exception as e:  # noqa: BLE001
                    violate("C28.migration-raises", f"migrating a restored starting state on an already used path raised {type(e).__name__}: {e}", crash=False, restored=True)
            return n_stmts
        finally:
            td.close()
    oos: list = []
    n = one(None)
    # crash at every statement of the run that would be executed from this start state
    for j in range(1, (n or 0) + 1):
        one(j)
    return {"violations": violations, "harness": None, "nontrivial": bool(nts), "nontrivial_shapes": sorted(nts), "shape": case,
            "faults": faults, "probes": probes, "sim_time": 0.0, "steps": 0, "digest": case, "evals": evals,
            "sample": {"case": case, "statements_in_run": n, "reference_versions": ref["versions"], "out_of_scope_crash_images": oos[:5]}}


def run(tape):
    return run_indexed(tape.draw(10_000, "case"), tape)


from sim import boot as _b  # noqa: E402

_b.boot()
QUICK_RUNS = len(cases())
