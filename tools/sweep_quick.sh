#!/bin/bash
# Maintenance: run every registered quick_cmd the way the harness does (evidence removed first) for one VERIF_SEED.
# usage: tools/sweep_quick.sh <seed> [logdir]     -- prints one line per check; anything but "rc=0 viol=0 evidence=yes" needs triage
export VERIF_SEED=${1:-1} VERIF_TIER=quick CARGO_NET_OFFLINE=true GOPROXY=off PIP_NO_INDEX=1
out=${2:-$(mktemp -d /var/tmp/verif-sweep-XXXX)}; mkdir -p "$out"
cd "$(dirname "$0")/.."
for id in $(jq -r '.checks[].property_id' MANIFEST.json); do
  cmd=$(jq -r ".checks[] | select(.property_id==\"$id\") | .quick_cmd" MANIFEST.json)
  ev=$(jq -r ".checks[] | select(.property_id==\"$id\") | .evidence_file" MANIFEST.json)
  rm -f "$ev"
  timeout 1200 bash -c "$cmd" > "$out/$id.log" 2>&1; rc=$?
  echo "$id rc=$rc viol=$(grep -c '^VIOLATION' "$out/$id.log") evidence=$([ -s "$ev" ] && echo yes || echo NO) log=$out/$id.log"
done
