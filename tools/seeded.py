"""Breaking changes written by fresh sub-agents (they saw only the property text and a scratch worktree).

usage: tools/seeded.py import <PID> <worktree> [--desc-A "..."] [--desc-B "..."]
           copies change_{A,B}.diff / demo_{A,B}.py from the worktree into seeded/<PID>/<A|B>/{patch.diff,demo.py,meta.json}
       tools/seeded.py check [<PID>[/<A|B>]] [--props C01,C02] [--runs N]
           applies each patch.diff to a scratch copy (tools/mutation_check.py) and runs the property's check (plus --props);
           writes the outcome into meta.json ("detected_by": {check: "KILLED rule,..." | "SURVIVED"}).
Nothing here is ever applied to /repo itself.
"""
import argparse, glob, json, os, shutil, sys
ROOT = os.path.dirname(os.path.dirname(os.path.abspath(__file__)))
sys.path.insert(0, os.path.join(ROOT, "tools"))
import mutation_check  # noqa: E402


def do_import(a):
    for tag in ("A", "B", "C", "D", "E", "F"):
        diff = os.path.join(a.worktree, f"change_{tag}.diff")
        if not os.path.exists(diff) or os.path.getsize(diff) == 0:
            continue
        d = os.path.join(ROOT, "seeded", a.pid, tag)
        os.makedirs(d, exist_ok=True)
        shutil.copy(diff, os.path.join(d, "patch.diff"))
        demo = os.path.join(a.worktree, f"demo_{tag}.py")
        if os.path.exists(demo):
            shutil.copy(demo, os.path.join(d, "demo.py"))
        mp = os.path.join(d, "meta.json")
        meta = json.load(open(mp)) if os.path.exists(mp) else {}
        notes = os.path.join(a.worktree, "NOTES.md")
        if os.path.exists(notes):
            shutil.copy(notes, os.path.join(d, "NOTES.md"))
        meta.update({"property": a.pid, "source": "fresh sub-agent given only the property text and a scratch worktree",
                     "description": getattr(a, "desc_" + tag, "") or meta.get("description", "")})
        if getattr(a, "verified", None):
            meta["verified"] = a.verified
        meta.setdefault("detected_by", {})
        json.dump(meta, open(mp, "w"), indent=1)
        print("imported", d)


def do_check(a):
    sel = a.target or "*"
    pid, _, tag = sel.partition("/")
    bad = 0
    for d in sorted(glob.glob(os.path.join(ROOT, "seeded", pid or "*", tag or "*"))):
        patch = os.path.join(d, "patch.diff")
        if not os.path.exists(patch):
            continue
        mp = os.path.join(d, "meta.json")
        meta = json.load(open(mp)) if os.path.exists(mp) else {}
        if meta.get("frozen"):
            print(f"{os.path.relpath(d, ROOT):24s} frozen (see its note): {meta.get('detected_by')}", flush=True)
            continue
        props = [meta.get("property") or os.path.basename(os.path.dirname(d))]
        for p in (a.props.split(",") if a.props else meta.get("also_check", [])):
            if p and p not in props:
                props.append(p)
        res = mutation_check.run_one(patch, props, a.runs)
        meta.setdefault("detected_by", {}).update(res)
        json.dump(meta, open(mp, "w"), indent=1)
        for k, v in res.items():
            print(f"{os.path.relpath(d, ROOT):24s} {k}: {v}", flush=True)
        if not any(v.startswith("KILLED") for v in meta["detected_by"].values()):
            bad += 1
    return 1 if bad else 0


def main():
    ap = argparse.ArgumentParser()
    sub = ap.add_subparsers(dest="cmd", required=True)
    i = sub.add_parser("import")
    i.add_argument("pid")
    i.add_argument("worktree")
    i.add_argument("--desc-A", dest="desc_A", default="")
    i.add_argument("--desc-B", dest="desc_B", default="")
    for t in "CDEF":
        i.add_argument("--desc-" + t, dest="desc_" + t, default="")
    i.add_argument("--verified", default="", help="what was run to confirm the change (tools/seeded_verify.sh output)")
    c = sub.add_parser("check")
    c.add_argument("target", nargs="?")
    c.add_argument("--props")
    c.add_argument("--runs", type=int)
    a = ap.parse_args()
    return do_import(a) if a.cmd == "import" else do_check(a)


if __name__ == "__main__":
    sys.exit(main() or 0)
