"""Self-test of the dbos EMULATOR (stubs/dbos) against its own written contract (DESIGN.md W-DBOS items 1-6), independent of
the repository's code: a plain workflow of steps, a fan of concurrent steps, recv, send-from-outside and stream writes is
stopped after every committed transaction and recovered; the recovered execution must
  - return the same value as the uninterrupted one,
  - never run the body of a step whose output had been recorded,
  - receive every message exactly once, in send order,
  - expose the same stream contents (workflow-level writes idempotent).
usage: tools/dbos_selftest.py [--seeds N]      exit 0 = emulator honours its contract on everything explored
"""
import argparse
import asyncio
import contextvars
import os
import sys

ROOT = os.path.dirname(os.path.dirname(os.path.abspath(__file__)))
sys.path.insert(0, ROOT)
from sim import boot  # noqa: E402

boot.boot()
from sim import sqlite_seam  # noqa: E402
from sim.clock import SimClock  # noqa: E402
from sim.loop import SimLoop  # noqa: E402
from sim.sqlite_seam import INCARNATION, SEAM  # noqa: E402
from sim.tape import Tape  # noqa: E402
from worlds.stores import TmpDir  # noqa: E402

import dbos as em  # noqa: E402
from dbos import DBOS, SetWorkflowID  # noqa: E402

BODY_RUNS: dict = {}


def define(inc_ctx):
    """(re)register the program in the given incarnation context; returns the workflow function"""
    def _def():
        @DBOS.step(name="double")
        async def double(x):
            BODY_RUNS[("double", x)] = BODY_RUNS.get(("double", x), 0) + 1
            await asyncio.sleep(0.25 * (x % 3))
            return 2 * x

        @DBOS.step(name="flaky")
        def flaky(x):
            BODY_RUNS[("flaky", x)] = BODY_RUNS.get(("flaky", x), 0) + 1
            if x % 2:
                raise ValueError(f"odd {x}")
            return x

        @DBOS.workflow(name="prog")
        async def prog(n):
            acc = []
            for i in range(n):
                acc.append(await double(i))
                await DBOS.write_stream_async("out", ("seq", i))
            # concurrent steps: ids by preamble order
            tasks = []
            for i in range(n):
                tasks.append(asyncio.create_task(double(10 + i)))
                await asyncio.sleep(0)
            acc.extend(await asyncio.gather(*tasks))
            for i in range(2):
                try:
                    acc.append(flaky(i))
                except ValueError as e:
                    acc.append(str(e))
            got = []
            while len(got) < 3:
                m = await DBOS.recv_async("t", timeout_seconds=1000)
                got.append(m)
            acc.append(tuple(got))
            await DBOS.write_stream_async("out", ("done", len(acc)))
            return acc
        return prog
    return inc_ctx.run(_def)


async def scenario(loop, tmp, crash_k, out):
    def mk_inc(n):
        ctx = contextvars.copy_context()
        ctx.run(INCARNATION.set, n)
        ctx.run(lambda: DBOS(config={"system_database_url": f"sqlite:///{tmp.db()}", "executor_id": "e1"}))
        return ctx
    crashed = asyncio.Event()
    SEAM.on_crash = lambda inc: crashed.set()
    ctx1 = mk_inc(1)
    prog = define(ctx1)
    ctx1.run(DBOS.launch)
    tasks1 = []
    loop.task_hook = lambda t: tasks1.append(t) if INCARNATION.get() == 1 else None
    base = SEAM.total_commits
    if crash_k is not None:
        SEAM.crash_plan = {"table": None, "k": base + crash_k, "inc": 1}

    async def start():
        with SetWorkflowID("w1"):
            return await DBOS.start_workflow_async(prog, 3)
    h = await loop.create_task(start(), context=ctx1)

    async def sender(ctx, msgs):
        for m in msgs:
            await asyncio.sleep(0.5)
            try:
                await DBOS.send_async("w1", m, topic="t")
                out.setdefault("sent", []).append(m)
            except BaseException:  # noqa: BLE001
                return
    s1 = loop.create_task(sender(ctx1, ["a", "b", "c"]), context=ctx1)
    res_t = loop.create_task(h.get_result(), context=ctx1)
    ce = asyncio.ensure_future(crashed.wait())
    await asyncio.wait([res_t, ce], return_when=asyncio.FIRST_COMPLETED)
    out["commits"] = SEAM.total_commits - base
    if crashed.is_set():
        out["crashed"] = True
        for _ in range(10):
            pend = [t for t in tasks1 + [s1, res_t] if not t.done()]
            if not pend:
                break
            for t in pend:
                t.cancel()
            await asyncio.gather(*pend, return_exceptions=True)
        em._instances.pop(1, None)
        ctx2 = mk_inc(2)
        define(ctx2)
        ctx2.run(DBOS.launch)
        sent = out.get("sent", [])
        rest = [m for m in ["a", "b", "c"] if m not in sent]

        async def later():
            h2 = await DBOS.retrieve_workflow_async("w1")
            return await h2.get_result()
        loop.create_task(sender(ctx2, rest), context=ctx2)
        out["result"] = await loop.create_task(later(), context=ctx2)
    else:
        ce.cancel()
        out["result"] = res_t.result()

    async def stream():
        return [x async for x in DBOS.read_stream_async("w1", "out")]
    out["stream"] = await loop.create_task(stream(), context=ctx1 if not crashed.is_set() else ctx2)


def run(seed, crash_k):
    BODY_RUNS.clear()
    em.reset_emulator()
    SEAM.reset()
    SEAM.active = True
    tape = Tape(seed=seed)
    clock = SimClock()
    loop = SimLoop(clock, tape, max_steps=200_000, max_time=1e6, quiesce_gap=500.0, salt=seed)
    tmp = TmpDir()
    out: dict = {}
    try:
        loop.run_sim(scenario(loop, tmp, crash_k, out))
    finally:
        loop.drain_and_close()
        SEAM.active = False
        SEAM.on_crash = None
        tmp.close()
        em.reset_emulator()
    out["body_runs"] = dict(BODY_RUNS)
    return out


def main():
    ap = argparse.ArgumentParser()
    ap.add_argument("--seeds", type=int, default=2)
    a = ap.parse_args()
    bad = 0
    total = 0
    for seed in range(a.seeds):
        ref = run(seed, None)
        n = ref["commits"]
        for k in range(1, n + 1):
            o = run(seed, k)
            total += 1
            probs = []
            if o["result"] != ref["result"]:
                probs.append(f"result {o['result']} != {ref['result']}")
            if o["stream"] != ref["stream"]:
                probs.append(f"stream {o['stream']} != {ref['stream']}")
            # a step body may run twice only if its output was not recorded before the stop: at most 2 runs, and for at most the
            # steps in flight at the stop (<= 3 concurrent + 1)
            twice = [kk for kk, v in o["body_runs"].items() if v > 2]
            if twice:
                probs.append(f"step bodies ran more than twice: {twice}")
            if sum(1 for v in o["body_runs"].values() if v == 2) > 4:
                probs.append(f"too many re-executed bodies: {o['body_runs']}")
            if probs:
                bad += 1
                print(f"EMULATOR-CONTRACT-VIOLATION seed={seed} stop_after_commit={k}: " + "; ".join(probs))
    print(f"dbos emulator self-test: {total} stop points over {a.seeds} seeds, {bad} contract violations")
    return 1 if bad else 0


if __name__ == "__main__":
    sys.exit(main())
