"""Run every claimed check's quick tier under several VERIF_SEED values (no evidence written); report non-zero exits.
usage: tools/seed_sweep.py 1,2,3 [C01,C02|all] [thorough:<seconds>]      (third argument: run the thorough tier time-boxed to <seconds>)"""
import json, os, subprocess, sys
ROOT = os.path.dirname(os.path.dirname(os.path.abspath(__file__)))
seeds = [int(x) for x in sys.argv[1].split(",")]
extra = []
if len(sys.argv) > 3 and sys.argv[3].startswith("thorough:"):
    extra = ["--tier", "thorough", "--seconds", sys.argv[3].split(":")[1]]
props = sys.argv[2].split(",") if len(sys.argv) > 2 and sys.argv[2] != "all" else [c["property_id"] for c in json.load(open(os.path.join(ROOT, "MANIFEST.json")))["checks"]]
bad = 0
for p in props:
    for sd in seeds:
        env = dict(os.environ, VERIF_SEED=str(sd))
        env.pop("PYTHONHASHSEED", None)
        r = subprocess.run(["/venv/bin/python", os.path.join(ROOT, "run_check.py"), p, "--no-evidence"] + extra, capture_output=True, text=True, env=env, cwd=ROOT, timeout=3600)
        rules = sorted({l.split("rule=")[1].split()[0] + " " + l.split("cause=")[1][:80] for l in r.stdout.splitlines() if l.strip().startswith("rule=")})
        print(f"{p} seed={sd} exit={r.returncode} {rules if r.returncode else ''}", flush=True)
        bad += r.returncode != 0
print("SWEEP", "CLEAN" if not bad else f"{bad} non-zero exits")
