"""Create a mutant patch by textual replacement.
usage: tools/mkmut.py <name> <props> <relpath> <description>  (reads old/new blocks from stdin separated by a line '=====')"""
import difflib, os, sys
name, props, rel, desc = sys.argv[1:5]
repo = os.environ.get("VERIF_REPO", "/repo")
old, new = sys.stdin.read().split("\n=====\n")
old = old.strip("\n"); new = new.rstrip("\n").lstrip("\n")
src = open(os.path.join(repo, rel)).read()
assert src.count(old) == 1, f"old block occurs {src.count(old)} times"
dst = src.replace(old, new)
diff = "".join(difflib.unified_diff(src.splitlines(True), dst.splitlines(True), "a/" + rel, "b/" + rel))
out = os.path.join(os.path.dirname(os.path.dirname(os.path.abspath(__file__))), "mutants", name + ".patch")
open(out, "w").write(f"# props: {props}\n# {desc}\n" + diff)
print("wrote", out)
