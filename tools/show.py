"""Debug: run one simulated run of a property and print its trace.
usage: tools/show.py C01 <run-index> [VERIF_SEED]"""
import os, sys
if os.environ.get("PYTHONHASHSEED") is None:
    os.execve(sys.executable, [sys.executable] + sys.argv, dict(os.environ, PYTHONHASHSEED="0"))
sys.path.insert(0, os.path.dirname(os.path.dirname(os.path.abspath(__file__))))
from sim import boot; boot.boot()
from sim.tape import Tape, derive_seed
from sim import runner
import json
prop = sys.argv[1].upper(); idx = int(sys.argv[2]); vs = int(sys.argv[3]) if len(sys.argv) > 3 else 0
os.environ["VERIF_WANT_TRACE"] = "1"
tape = Tape(derive_seed(vs, prop, idx), keep_labels=True)
res = runner.run_one(prop, tape)
print("harness:", res.get("harness")); print(res.get("tb", ""))
if res.get("sample"): print(json.dumps(res["sample"]["program"], default=str)[:3000])
for l in res.get("trace_excerpt", []): print(l)
print("violations:", json.dumps(res["violations"], indent=1, default=str))
print("nontrivial:", res.get("nontrivial"), "probes:", res.get("probes"), "faults:", res.get("faults"))
