"""Determinism self-test: same tape => same trace digest
  (a) twice in one process, (b) in a fresh interpreter, (c) under another PYTHONHASHSEED,
  (d) from inside a forked pool worker.
usage: tools/selftest.py determinism [--props C01,C02] [--seeds 20]
Exit 0 = all digests equal; 1 = divergence (harness defect)."""
import argparse, json, os, subprocess, sys
ROOT = os.path.dirname(os.path.dirname(os.path.abspath(__file__)))
sys.path.insert(0, ROOT)


SLOW = {"C27": 2, "C13": 3, "C28": 2}


def digests(props, seeds, base):
    from sim import boot; boot.boot()
    from sim.tape import Tape, derive_seed
    from sim import runner
    out = {}
    for p in props:
        # properties whose single run is itself an enumeration (tens of simulations) get fewer seeds in this smoke test
        for i in range(min(seeds, SLOW.get(p, seeds))):
            res = runner.run_one(p, Tape(derive_seed(base, p, i)))
            out[f"{p}:{i}"] = res.get("digest") or ("HARNESS:" + str(res.get("harness")))
    return out


def _pool_job(args):
    return digests(*args)


def main():
    ap = argparse.ArgumentParser()
    ap.add_argument("mode")
    ap.add_argument("--props", default="")
    ap.add_argument("--seeds", type=int, default=20)
    ap.add_argument("--base", type=int, default=12345)
    ap.add_argument("--emit", action="store_true")
    a = ap.parse_args()
    props = [p for p in a.props.split(",") if p] or all_props()
    if a.emit:
        print(json.dumps(digests(props, a.seeds, a.base)))
        return 0
    if os.environ.get("PYTHONHASHSEED") is None:
        os.execve(sys.executable, [sys.executable] + sys.argv, dict(os.environ, PYTHONHASHSEED="0"))
    d1 = digests(props, a.seeds, a.base)
    d2 = digests(props, a.seeds, a.base)
    bad = [k for k in d1 if d1[k] != d2[k]]
    variants = {"same-process-twice": d2}
    for hs in ("0", "1"):
        env = dict(os.environ, PYTHONHASHSEED=hs, PYTHONDONTWRITEBYTECODE="1")
        r = subprocess.run([sys.executable, __file__, "determinism", "--emit", "--props", ",".join(props),
                            "--seeds", str(a.seeds), "--base", str(a.base)], env=env, capture_output=True, text=True, timeout=1800)
        if r.returncode != 0:
            print("fresh interpreter failed:", r.stderr[-2000:]); return 1
        variants[f"fresh-interpreter-hashseed-{hs}"] = json.loads(r.stdout.strip().splitlines()[-1])
    from concurrent.futures import ProcessPoolExecutor
    from multiprocessing import get_context
    with ProcessPoolExecutor(4, mp_context=get_context("fork")) as ex:
        parts = list(ex.map(_pool_job, [([p], a.seeds, a.base) for p in props]))
    merged = {}
    for p in parts: merged.update(p)
    variants["forked-pool"] = merged
    ok = True
    for name, d in variants.items():
        diff = [k for k in d1 if d1[k] != d.get(k)]
        harness = [k for k in d1 if str(d1[k]).startswith("HARNESS")]
        print(f"{name}: {len(d1) - len(diff)}/{len(d1)} identical" + (f"  DIVERGED: {diff[:5]}" if diff else ""))
        if diff: ok = False
    h = [k for k in d1 if str(d1[k]).startswith("HARNESS")]
    if h:
        print("runs with harness errors:", h[:5], d1[h[0]])
    print("DETERMINISM", "OK" if ok else "FAILED", f"props={len(props)} seeds={a.seeds}")
    return 0 if ok else 1


def all_props():
    m = json.load(open(os.path.join(ROOT, "MANIFEST.json")))
    return [c["property_id"] for c in m["checks"]]


if __name__ == "__main__":
    sys.exit(main())
