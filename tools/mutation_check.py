"""Sensitivity self-test: apply one mutant patch to a scratch copy of the repo's
package sources, run a check against it (VERIF_REPO), expect exit 1.

usage: tools/mutation_check.py <patch> <PROP>[,<PROP>...] [--runs N]
       tools/mutation_check.py --all      (runs every mutants/*.patch against the props named in its header)
Patch header line:  # props: C01,C03   (which checks are expected to kill it)
"""
import argparse, glob, os, shutil, subprocess, sys, tempfile
ROOT = os.path.dirname(os.path.dirname(os.path.abspath(__file__)))
REPO = os.environ.get("VERIF_REPO", "/repo")


def make_copy():
    d = tempfile.mkdtemp(prefix="verif-mut-")
    subprocess.run(["rsync", "-a", "--include=*/", "--include=*.py", "--include=*.sql", "--include=*.json", "--include=*.toml",
                    "--exclude=*", "--prune-empty-dirs", f"{REPO}/packages", d + "/"], check=True)
    return d


def run_one(patch, props, runs):
    d = make_copy()
    try:
        r = subprocess.run(["patch", "-p1", "-s", "-d", d, "-i", os.path.abspath(patch)], capture_output=True, text=True)
        if r.returncode != 0:
            print(f"PATCH-FAILED {patch}: {r.stdout} {r.stderr}")
            return {p: "patch-failed" for p in props}
        out = {}
        for p in props:
            cmd = ["/venv/bin/python", os.path.join(ROOT, "run_check.py"), p, "--no-evidence", "--no-minimise"]
            if runs:
                cmd += ["--runs", str(runs)]
            env = dict(os.environ, VERIF_REPO=d, PYTHONDONTWRITEBYTECODE="1")
            env.pop("PYTHONHASHSEED", None)
            r = subprocess.run(cmd, capture_output=True, text=True, env=env, cwd=ROOT, timeout=1800)
            rules = sorted({l.split("rule=")[1].split()[0] for l in r.stdout.splitlines() if l.strip().startswith("rule=")})
            out[p] = ("KILLED " + ",".join(rules)) if r.returncode == 1 else f"SURVIVED(exit {r.returncode})"
            if r.returncode == 2:
                out[p] += " " + " | ".join(l for l in r.stdout.splitlines() if "HARNESS" in l)[:300]
        return out
    finally:
        shutil.rmtree(d, ignore_errors=True)


def header_props(patch):
    for l in open(patch):
        if l.startswith("# props:"):
            return [x.strip() for x in l.split(":", 1)[1].split(",") if x.strip()]
    return []


def main():
    ap = argparse.ArgumentParser()
    ap.add_argument("patch", nargs="?")
    ap.add_argument("props", nargs="?")
    ap.add_argument("--runs", type=int)
    ap.add_argument("--all", action="store_true")
    a = ap.parse_args()
    patches = sorted(glob.glob(os.path.join(ROOT, "mutants", "*.patch"))) if a.all else [a.patch]
    bad = 0
    for p in patches:
        props = a.props.split(",") if a.props else header_props(p)
        res = run_one(p, props, a.runs)
        for k, v in res.items():
            print(f"{os.path.basename(p):45s} {k}: {v}", flush=True)
            if not v.startswith("KILLED"):
                bad += 1
    return 1 if bad else 0


if __name__ == "__main__":
    sys.exit(main())
