"""Regenerate the sensitivity table of DESIGN.md §9.5 from
  - mutants/*.patch  (run: tools/mutation_check.py --all > /dev/shm/mutants.log, or pass --mutants-log)
  - seeded/*/*/meta.json (filled by tools/seeded.py check)
usage: tools/sensitivity_table.py [--mutants-log FILE]
"""
import argparse, glob, json, os, re
ROOT = os.path.dirname(os.path.dirname(os.path.abspath(__file__)))


def main():
    ap = argparse.ArgumentParser()
    ap.add_argument("--mutants-log", default="/dev/shm/mutants.log")
    a = ap.parse_args()
    rows = []
    res = {}
    if os.path.exists(a.mutants_log):
        for l in open(a.mutants_log):
            m = re.match(r"(\S+\.patch)\s+(C\d+): (.*)", l.strip())
            if m:
                res.setdefault(m.group(1), {})[m.group(2)] = m.group(3)
    for p in sorted(glob.glob(os.path.join(ROOT, "mutants", "*.patch"))):
        name = os.path.basename(p)
        lines = open(p).read().splitlines()
        desc = lines[1][2:] if len(lines) > 1 and lines[1].startswith("# ") else ""
        r = res.get(name, {})
        caught = "; ".join(f"{k}: {v.replace('KILLED ', '')}" if v.startswith("KILLED") else f"{k}: **{v}**" for k, v in sorted(r.items())) or "(not run)"
        rows.append((name[:3].upper(), f"mutant `{name[:-6]}`", desc, caught))
    for mp in sorted(glob.glob(os.path.join(ROOT, "seeded", "*", "*", "meta.json"))):
        meta = json.load(open(mp))
        rel = os.path.relpath(os.path.dirname(mp), ROOT)
        r = meta.get("detected_by", {})
        caught = "; ".join(f"{k}: {v.replace('KILLED ', '')}" if v.startswith("KILLED") else f"{k}: **{v}**" for k, v in sorted(r.items())) or "(not run)"
        rows.append((meta.get("property", "?"), f"seeded `{rel}`", meta.get("description", ""), caught))
    rows.sort(key=lambda r: (r[0], r[1]))
    out = ["| Property | Change | What it does | Caught by (rules that fired) |", "|---|---|---|---|"]
    for r in rows:
        out.append("| " + " | ".join(x.replace("|", "\\|").replace("\n", " ") for x in r) + " |")
    table = "\n".join(out)
    dp = os.path.join(ROOT, "DESIGN.md")
    s = open(dp).read()
    b, e = "<!-- SENSITIVITY-TABLE-BEGIN -->", "<!-- SENSITIVITY-TABLE-END -->"
    i, j = s.index(b) + len(b), s.index(e)
    s = s[:i] + "\n" + table + "\n" + s[j:]
    open(dp, "w").write(s)
    print(f"{len(rows)} rows written")


if __name__ == "__main__":
    main()
