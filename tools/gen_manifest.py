"""Regenerate MANIFEST.json from the property modules (props/cNN.py) and props/registry.py."""
import importlib, json, os, sys
ROOT = os.path.dirname(os.path.dirname(os.path.abspath(__file__)))
sys.path.insert(0, ROOT)
os.environ.setdefault("PYTHONHASHSEED", "0")
from sim import boot; boot.boot()
from props import registry

checks = []
for pid in registry.CLAIMED:
    m = importlib.import_module(f"props.{pid.lower()}")
    checks.append({
        "property_id": pid,
        "quick_cmd": f"/venv/bin/python run_check.py {pid} --tier quick",
        "thorough_cmd": f"/venv/bin/python run_check.py {pid} --tier thorough",
        "evidence_file": f"/verif/evidence/{pid}.json",
        "replay_cmd_template": f"/venv/bin/python run_check.py {pid} --replay {{path}}",
        "engine": getattr(m, "ENGINE", "sim"),
        "level_claimed": {"category": m.LEVEL, "text": m.LEVEL_TEXT, "design_ref": f"DESIGN.md §4 {pid}"},
        "level_note": m.LEVEL_NOTE,
        "technique": getattr(m, "TECHNIQUE", registry.DEFAULT_TECHNIQUE),
    })
manifest = {
    "version": 1,
    "setup_cmd": registry.SETUP_CMD,
    "hooks": {"guard": "WORKFLOWS_PY_VERIF", "enable": "no source hooks are needed: every seam is reached from outside (module attributes, runtime/adapter decorators, event loop, httpx transport)",
              "baseline_off_cmd": "cd /repo && /venv/bin/python -m pytest -ra -q -p no:cacheprovider --timeout=900 --continue-on-collection-errors",
              "source_commits": [], "add_only": True},
    "engines": [{"name": "sim", "path": "/verif/sim", "serves_properties": registry.CLAIMED,
                 "kind_free_text": "deterministic simulation: virtual-time asyncio loop, decision tape, fault injection, seeded search, tape minimisation, replay"}],
    "checks": checks,
    "notes": registry.NOTES,
    "not_applicable": [{"property_id": k, "reason": v} for k, v in registry.NOT_APPLICABLE.items()],
}
with open(os.path.join(ROOT, "MANIFEST.json"), "w") as f:
    json.dump(manifest, f, indent=1)
print("claimed", len(checks), "not_applicable", len(registry.NOT_APPLICABLE))
import jsonschema
jsonschema.validate(manifest, json.load(open("/root/.vp/MANIFEST.schema.json")))
props = [json.loads(l)["id"] for l in open(os.path.join(ROOT, "properties.jsonl"))]
missing = [p for p in props if p not in registry.CLAIMED and p not in registry.NOT_APPLICABLE]
assert not missing, missing
print("manifest valid; all", len(props), "properties accounted for")
