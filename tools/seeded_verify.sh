#!/bin/bash
# Confirm a sub-agent's change in its scratch worktree: demo fails with the change, passes without, pinned suite passes with it.
# usage: tools/seeded_verify.sh <worktree> <C|D|...>     prints one line: <wt> <tag> demo_with=<rc> suite=<summary> demo_without=<rc>
wt=$1; tag=$2
PP=/tmp/wt-stubs:$wt/packages/llama-index-workflows/src:$wt/packages/llama-agents-server/src:$wt/packages/llama-agents-client/src:$wt/packages/llama-agents-core/src:$wt/packages/llamactl/src:$wt/packages/llama-agents-dbos/src
cd "$wt" || exit 2
git checkout -q -- . ; git apply --check change_$tag.diff || { echo "$wt $tag PATCH-DOES-NOT-APPLY"; exit 1; }
PYTHONPATH=$PP timeout 180 /venv/bin/python demo_$tag.py > /tmp/sv_$$_without.log 2>&1; r0=$?
git apply change_$tag.diff
PYTHONPATH=$PP timeout 180 /venv/bin/python demo_$tag.py > /tmp/sv_$$_with.log 2>&1; r1=$?
suite=$(timeout 1200 /venv/bin/python -m pytest -q -p no:cacheprovider --timeout=900 --continue-on-collection-errors 2>&1 | tail -1)
git checkout -q -- .
echo "$wt $tag demo_without=$r0 demo_with=$r1 suite=[$suite] :: $(tail -1 /tmp/sv_$$_with.log | cut -c1-160)"
rm -f /tmp/sv_$$_*.log
