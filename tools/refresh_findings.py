"""Maintenance: regenerate the replay files of the status=known entries of known_findings.json.

A replay file is a tape; whenever a check's generator or scenario draws differently (a new arm, a new knob) the old
tapes stop meaning the same history.  This tool re-runs each check with VERIF_IGNORE_KNOWN=1 (every signature is then
reported and minimised like a new violation), picks for each known entry the shortest replay whose violation matches
the entry's signature, verifies it in a fresh process and copies it to the entry's `replay` path.

usage: tools/refresh_findings.py [PROP ...] [--seeds 0,1,2] [--runs N]
Never run by a registered check; known_findings.json itself is not modified.
"""
import argparse, glob, json, os, shutil, subprocess, sys
ROOT = os.path.dirname(os.path.dirname(os.path.abspath(__file__)))


def matches(sig, ev):
    if sig.get("rule") != ev["rule"]:
        return False
    return all(ev["cause"].get(k) == v for k, v in sig.get("cause", {}).items())


def reproduces(prop, path):
    env = dict(os.environ, VERIF_IGNORE_KNOWN="1")
    r = subprocess.run(["/venv/bin/python", os.path.join(ROOT, "run_check.py"), prop, "--replay", path], capture_output=True, text=True, env=env, cwd=ROOT)
    return r.returncode == 1 and "VIOLATION" in r.stdout


def main():
    ap = argparse.ArgumentParser()
    ap.add_argument("props", nargs="*")
    ap.add_argument("--seeds", default="0,1,2")
    ap.add_argument("--runs", type=int)
    ap.add_argument("--only-stale", action="store_true", help="skip entries whose present replay file still reproduces")
    a = ap.parse_args()
    known = [f for f in json.load(open(os.path.join(ROOT, "known_findings.json")))["findings"] if f["status"] == "known" and f.get("replay")]
    props = a.props or sorted({f["property"] for f in known})
    missing = []
    for prop in props:
        todo = [f for f in known if f["property"] == prop]
        if a.only_stale:
            todo = [f for f in todo if not (os.path.exists(os.path.join(ROOT, f["replay"])) and reproduces(prop, f["replay"]))]
        for seed in a.seeds.split(","):
            if not todo:
                break
            for p in glob.glob(os.path.join(ROOT, "replays", f"{prop}-*.json")):
                os.remove(p)
            cmd = ["/venv/bin/python", os.path.join(ROOT, "run_check.py"), prop, "--tier", "quick", "--no-evidence"]
            if a.runs:
                cmd += ["--runs", str(a.runs)]
            env = dict(os.environ, VERIF_IGNORE_KNOWN="1", VERIF_SEED=seed)
            env.pop("PYTHONHASHSEED", None)
            subprocess.run(cmd, capture_output=True, text=True, env=env, cwd=ROOT, timeout=3600)
            cands = []
            for p in glob.glob(os.path.join(ROOT, "replays", f"{prop}-*.json")):
                rf = json.load(open(p))
                cands.append((len(rf["tape"]), sum(rf["tape"]), p, rf))
            cands.sort(key=lambda c: c[:3])
            for f in list(todo):
                for _, _, p, rf in cands:
                    if matches(f["signature"], rf["expected_violation"]) and reproduces(prop, p):
                        shutil.copyfile(p, os.path.join(ROOT, f["replay"]))
                        print(f"{f['id']}: refreshed from seed {seed} ({len(rf['tape'])} draws) cause={json.dumps(rf['expected_violation']['cause'])}", flush=True)
                        todo.remove(f)
                        break
        for f in todo:
            missing.append(f["id"])
            print(f"{f['id']}: NOT FOUND in seeds {a.seeds}", flush=True)
    print("missing:", missing)
    return 1 if missing else 0


if __name__ == "__main__":
    sys.exit(main())
