"""Name-only stub (cryptography is not installed for this interpreter)."""
