class RSAPublicKey:  # name-only stub
    pass
