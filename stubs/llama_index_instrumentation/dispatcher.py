from __future__ import annotations

import functools
import inspect
from contextlib import contextmanager
from contextvars import ContextVar
from typing import Any

active_instrument_tags: ContextVar[dict] = ContextVar("instrument_tags", default={})


@contextmanager
def instrument_tags(new_tags: dict):
    token = active_instrument_tags.set(new_tags)
    try:
        yield
    finally:
        active_instrument_tags.reset(token)


class Dispatcher:
    def __init__(self, name: str = "root") -> None:
        self.name = name

    def event(self, event: Any, **kwargs: Any) -> None:
        return None

    def span_enter(self, *a: Any, **k: Any) -> None:
        return None

    def span_exit(self, *a: Any, **k: Any) -> None:
        return None

    def span_drop(self, *a: Any, **k: Any) -> None:
        return None

    def capture_propagation_context(self) -> dict:
        return dict(active_instrument_tags.get())

    def restore_propagation_context(self, ctx: dict) -> None:
        return None

    def span(self, func):
        if inspect.iscoroutinefunction(func):

            @functools.wraps(func)
            async def async_wrapper(*args: Any, **kwargs: Any) -> Any:
                return await func(*args, **kwargs)

            return async_wrapper

        @functools.wraps(func)
        def wrapper(*args: Any, **kwargs: Any) -> Any:
            return func(*args, **kwargs)

        return wrapper


_root = Dispatcher()


def get_dispatcher(name: str = "root") -> Dispatcher:
    return _root
