"""Minimal no-op stand-in for llama_index_instrumentation (not installed in this sandbox).

Tracing is not the subject of any property; the dispatcher here forwards calls and
records nothing.  `Dispatcher.span` returns the wrapped callable unchanged apart
from being a plain pass-through, which is what the real dispatcher does when no
span handler is registered.
"""
from .dispatcher import Dispatcher, get_dispatcher  # noqa: F401
