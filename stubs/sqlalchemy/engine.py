class _Dialect:
    def __init__(self, name):
        self.name = name


class URL:
    def __init__(self, drivername, database):
        self.drivername = drivername
        self.database = database

    def set(self, **kw):
        u = URL(self.drivername, self.database)
        for k, v in kw.items():
            setattr(u, k, v)
        return u

    def render_as_string(self, hide_password=True):
        return f"{self.drivername}:///{self.database}"


class Engine:
    def __init__(self, url: URL):
        self.url = url
        self.dialect = _Dialect("sqlite" if url.drivername.startswith("sqlite") else "postgresql")
