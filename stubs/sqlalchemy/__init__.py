"""Name-only stand-in: sqlalchemy is not installed. Engine/URL carry just what DBOSRuntime reads (dialect.name, url.database)."""
