"""Name-only stub of truststore (not installed here)."""
import ssl


class SSLContext(ssl.SSLContext):  # pragma: no cover
    pass


def inject_into_ssl() -> None:  # pragma: no cover
    return None
