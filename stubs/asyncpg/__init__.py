"""Name-only stand-in: asyncpg is not installed; only the SQLite branches of the repository are exercised."""


class Pool:  # noqa: D101
    pass


class Connection:  # noqa: D101
    pass


class PostgresError(Exception):
    pass


class UniqueViolationError(PostgresError):
    pass


async def connect(*a, **k):
    raise RuntimeError("asyncpg is not available in this sandbox")


async def create_pool(*a, **k):
    raise RuntimeError("asyncpg is not available in this sandbox")


def __getattr__(name):  # any other name used only in annotations
    return type(name, (), {})
