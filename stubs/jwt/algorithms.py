class RSAAlgorithm:  # name-only stub
    @staticmethod
    def from_jwk(*a, **k):
        raise RuntimeError("jwt stub")
