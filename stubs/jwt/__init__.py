"""Name-only stub of PyJWT (not installed here); never called on the exercised paths."""


class PyJWKClient:  # pragma: no cover
    def __init__(self, *a, **k):
        raise RuntimeError("jwt stub: not available in this sandbox")


class InvalidTokenError(Exception):
    pass


class PyJWTError(Exception):
    pass


def decode(*a, **k):  # pragma: no cover
    raise RuntimeError("jwt stub: not available in this sandbox")


def get_unverified_header(*a, **k):  # pragma: no cover
    raise RuntimeError("jwt stub: not available in this sandbox")


