import json as _json


class _Multi:
    """query params: ordered multi-dict with get/getlist"""

    def __init__(self, pairs):
        self._pairs = list(pairs)

    def get(self, key, default=None):
        for k, v in self._pairs:
            if k == key:
                return v
        return default

    def getlist(self, key):
        return [v for k, v in self._pairs if k == key]

    def __contains__(self, key):
        return any(k == key for k, _ in self._pairs)


class _Headers:
    def __init__(self, pairs):
        self._d = {}
        for k, v in pairs:
            self._d.setdefault(k.lower(), v)

    def get(self, key, default=None):
        return self._d.get(key.lower(), default)


class _URL:
    def __init__(self, path):
        self.path = path


class Request:
    def __init__(self, method="GET", path="/", path_params=None, query=(), headers=(), body=b""):
        self.method = method
        self.url = _URL(path)
        self.path_params = dict(path_params or {})
        self.query_params = _Multi(query)
        self.headers = _Headers(headers)
        self._body = body

    async def body(self):
        return self._body

    async def json(self):
        return _json.loads(self._body or b"null")
