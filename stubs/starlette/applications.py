class Starlette:
    def __init__(self, routes=None, middleware=None, lifespan=None, exception_handlers=None, **kw):
        self.routes = list(routes or [])
        self.middleware = middleware
        self.lifespan = lifespan
        self.exception_handlers = exception_handlers or {}
        self.mounts = []

    def mount(self, path, app=None, name=None):
        self.mounts.append((path, app, name))
