import json as _json


class Response:
    media_type = None

    def __init__(self, content=b"", status_code=200, headers=None, media_type=None):
        self.status_code = status_code
        self.headers = dict(headers or {})
        if media_type is not None:
            self.media_type = media_type
        self.body = content if isinstance(content, bytes) else str(content).encode()


class JSONResponse(Response):
    media_type = "application/json"

    def __init__(self, content=None, status_code=200, headers=None, **kw):
        super().__init__(_json.dumps(content, ensure_ascii=False, allow_nan=False, separators=(",", ":")).encode("utf-8"),
                         status_code=status_code, headers=headers)


class StreamingResponse(Response):
    def __init__(self, content, status_code=200, headers=None, media_type=None):
        self.body_iterator = content
        self.status_code = status_code
        self.headers = dict(headers or {})
        self.media_type = media_type
        self.body = None
