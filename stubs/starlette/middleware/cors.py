class CORSMiddleware:
    def __init__(self, *a, **k):
        pass
