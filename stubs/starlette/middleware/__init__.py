class Middleware:
    def __init__(self, cls, *args, **kwargs):
        self.cls, self.args, self.kwargs = cls, args, kwargs
