import re


class Route:
    def __init__(self, path, endpoint, methods=None, name=None, **kw):
        self.path = path
        self.endpoint = endpoint
        self.methods = set(methods or ["GET"])
        self.name = name
        self._rx = re.compile("^" + re.sub(r"\{(\w+)(?::\w+)?\}", r"(?P<\1>[^/]+)", path) + "$")

    def match(self, method, path):
        if method not in self.methods:
            return None
        m = self._rx.match(path)
        return m.groupdict() if m else None
