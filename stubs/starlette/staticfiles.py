class StaticFiles:
    def __init__(self, directory=None, html=False, **kw):
        self.directory = directory
