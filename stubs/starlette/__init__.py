"""Minimal functional stand-in for starlette (not installed in this sandbox): just enough surface for
llama_agents.server._api to import and for the simulated transport (worlds/net.py) to dispatch requests to the real
endpoint coroutines.  Routing, request and response objects are STUBS; the endpoints themselves are the repo's code."""
