"""In-process EMULATOR of the `dbos` package (DBOS Transact is not installed and cannot be fetched in this sandbox).

This is NOT the real library.  It implements the contract that llama_agents.dbos relies on, written down in
/verif/DESIGN.md (W-DBOS, contract items 1-6), on the same SQLite file the repository's own tables live in:

  workflow_status(workflow_uuid, name, status, inputs, output, error, executor_id)
  operation_outputs(workflow_uuid, function_id, function_name, output, error, started_at_epoch_ms)   <- the repo's
      SqliteJournalCrud.purge_operations_from deletes from this table directly, so name and key columns are the real ones
  notifications(id, destination_uuid, topic, message)
  streams(workflow_uuid, key, offset, value)

1. DBOS.workflow(name) registers a coroutine function; start_workflow_async under SetWorkflowID(id) records
   (id, name, pickled inputs, PENDING, executor) and runs the function as a task whose DBOS context has function_id = 0.
   Starting an id that already exists returns a handle to the existing execution.
2. DBOS.step(name): on the first slice of the call the context's function_id is incremented and becomes the step's id (an
   async step is then suspended for HOPS loop iterations - the real library looks the id up off-loop; HOPS in 0..2 is drawn per run); if
   operation_outputs has that (workflow, id) the recorded output / error is returned WITHOUT running the body (a recorded
   row with another function name raises DBOSUnexpectedStepError); otherwise the body runs and its outcome is recorded
   in one committed transaction before it is returned.  A step called outside a workflow or inside another step is a
   plain call.
3. recv_async(topic, timeout) takes two function ids (receive, durable deadline); returns the recorded message if
   present, otherwise waits for a notifications row and consumes + records it in one transaction.  send / send_async
   insert a row (DBOSNonExistentWorkflowError if the destination workflow is unknown; refused inside a step).
4. write_stream_async from the workflow function is recorded per function id (idempotent on replay); from inside a step
   it is appended directly.  read_stream_async yields from offset 0 and ends when the workflow is no longer PENDING.
5. launch() re-invokes every PENDING workflow of this executor_id with its recorded inputs (recovery);
   retrieve_workflow_async / handle.get_result / delete_workflow_async do what their names say.
6. A crash discards everything in memory; every record above is a committed SQLite transaction.

One emulated DBOS "process" exists per simulator incarnation (sim.sqlite_seam.INCARNATION); the class-level API resolves
the instance of the calling context, which is how several replicas live in one interpreter.
"""
from __future__ import annotations

import asyncio
import contextvars
import functools
import inspect
import pickle
import time
from typing import Any

try:  # under the simulator all database access goes through the SQLite seam (crash fence, commit counting)
    from sim import sqlite_seam as _seam
    sqlite3 = _seam.make_proxy()
    _INC = _seam.INCARNATION
except Exception:  # pragma: no cover - standalone use
    import sqlite3  # type: ignore[no-redef]
    _INC = contextvars.ContextVar("inc", default=0)

from ._error import DBOSNonExistentWorkflowError, DBOSUnexpectedStepError  # noqa: E402

__all__ = ["DBOS", "DBOSConfig", "SetWorkflowID", "WorkflowHandleAsync"]

DBOSConfig = dict


class _Ctx:
    """workflow execution context; ONE object shared by every task of the execution (tasks copy the contextvar mapping,
    not the object), which is why the order of step preambles decides function ids"""
    __slots__ = ("workflow_id", "function_id", "inst")

    def __init__(self, workflow_id: str, inst: "_Instance") -> None:
        self.workflow_id = workflow_id
        self.function_id = 0
        self.inst = inst


_CTX: contextvars.ContextVar[_Ctx | None] = contextvars.ContextVar("dbos_ctx", default=None)
_IN_STEP: contextvars.ContextVar[bool] = contextvars.ContextVar("dbos_in_step", default=False)
_NEXT_ID: contextvars.ContextVar[str | None] = contextvars.ContextVar("dbos_next_id", default=None)

_instances: dict[int, "_Instance"] = {}
_waiters: list[asyncio.Future] = []
HOPS = 1                # loop iterations an async operation is suspended for its database lookup (a per-run knob of the simulator)
OBSERVER: list = []     # optional callables(kind, **fields) for the simulator's trace (observation only)


def _obs(kind: str, /, **f: Any) -> None:
    for o in OBSERVER:
        o(kind, **f)


def _notify() -> None:
    """database-mediated wake-up (stands for polling / LISTEN-NOTIFY): every waiter re-reads the database"""
    ws = list(_waiters)
    _waiters.clear()
    for w in ws:
        if not w.done():
            w.set_result(None)


async def _wait_change(timeout: float | None) -> None:
    loop = asyncio.get_running_loop()
    fut = loop.create_future()
    _waiters.append(fut)
    try:
        if timeout is None:
            await fut
        else:
            try:
                await asyncio.wait_for(asyncio.shield(fut), timeout)
            except (asyncio.TimeoutError, TimeoutError):
                pass
    finally:
        if fut in _waiters:
            _waiters.remove(fut)
        if not fut.done():
            fut.cancel()


async def _hop() -> None:
    """the database lookup of an async operation runs off-loop in the real library: the caller is suspended for (at least) one
    loop iteration before it learns whether a recorded result exists"""
    for _ in range(HOPS):
        await asyncio.sleep(0)


def reset_emulator() -> None:
    _instances.clear()
    _waiters.clear()
    OBSERVER.clear()


def _dumps(v: Any) -> bytes:
    return pickle.dumps(v)


def _dump_exc(e: BaseException) -> bytes:
    try:
        b = pickle.dumps(e)
        pickle.loads(b)
        return b
    except Exception:  # noqa: BLE001
        return pickle.dumps(RuntimeError(f"{type(e).__name__}: {e}"))


class _SysDB:
    def __init__(self, engine: Any) -> None:
        self.engine = engine


class _Instance:
    def __init__(self, config: dict) -> None:
        from sqlalchemy.engine import URL, Engine
        self._config = dict(config)
        url = str(config.get("system_database_url") or config.get("database_url") or "")
        path = url.split(":///", 1)[1].split("?", 1)[0] if ":///" in url else ":memory:"
        self.db_path = path
        self.executor_id = str(config.get("executor_id") or "local")
        self._app_db = None
        self._sys_db = _SysDB(Engine(URL("sqlite+pysqlite", path)))
        self.registry: dict[str, Any] = {}
        self.running: dict[str, asyncio.Task] = {}
        self.launched = False
        self.inc = _INC.get()
        with self._conn() as c:
            c.executescript(
                "CREATE TABLE IF NOT EXISTS workflow_status (workflow_uuid TEXT PRIMARY KEY, name TEXT, status TEXT, inputs BLOB, output BLOB, error BLOB, executor_id TEXT);"
                "CREATE TABLE IF NOT EXISTS operation_outputs (workflow_uuid TEXT NOT NULL, function_id INTEGER NOT NULL, function_name TEXT NOT NULL DEFAULT '', output BLOB, error BLOB, started_at_epoch_ms INTEGER, PRIMARY KEY (workflow_uuid, function_id));"
                "CREATE TABLE IF NOT EXISTS notifications (id INTEGER PRIMARY KEY AUTOINCREMENT, destination_uuid TEXT NOT NULL, topic TEXT, message BLOB);"
                "CREATE TABLE IF NOT EXISTS streams (workflow_uuid TEXT NOT NULL, key TEXT NOT NULL, offset INTEGER NOT NULL, value BLOB, PRIMARY KEY (workflow_uuid, key, offset));")

    # -- database -----------------------------------------------------------------------------------------------
    def _conn(self):
        return _Conn(self.db_path)

    def lookup(self, wfid: str, fid: int):
        with self._conn() as c:
            return c.execute("SELECT function_name, output, error FROM operation_outputs WHERE workflow_uuid=? AND function_id=?", (wfid, fid)).fetchone()

    def record(self, wfid: str, fid: int, name: str, output: Any = None, error: BaseException | None = None, conn=None) -> None:
        sql = "INSERT INTO operation_outputs (workflow_uuid, function_id, function_name, output, error, started_at_epoch_ms) VALUES (?,?,?,?,?,?)"
        args = (wfid, fid, name, None if error is not None else _dumps(output), _dump_exc(error) if error is not None else None, int(time.time() * 1000))
        if conn is not None:
            conn.execute(sql, args)
            return
        with self._conn() as c:
            c.execute(sql, args)
            c.commit()
        _obs("dbos-op", wf=wfid, fid=fid, name=name, err=error is not None)

    def status(self, wfid: str):
        with self._conn() as c:
            return c.execute("SELECT name, status, inputs, output, error, executor_id FROM workflow_status WHERE workflow_uuid=?", (wfid,)).fetchone()

    # -- execution ----------------------------------------------------------------------------------------------
    def spawn(self, wfid: str, fn: Any, args: tuple, recovered: bool = False) -> asyncio.Task:
        ctx = _Ctx(wfid, self)

        async def _execute() -> None:
            _CTX.set(ctx)
            _IN_STEP.set(False)
            _NEXT_ID.set(None)
            _obs("dbos-wf-start", wf=wfid, recovered=recovered)
            try:
                out = await fn(*args)
            except Exception as e:  # noqa: BLE001
                with self._conn() as c:
                    c.execute("UPDATE workflow_status SET status='ERROR', error=? WHERE workflow_uuid=?", (_dump_exc(e), wfid))
                    c.commit()
                _obs("dbos-wf-end", wf=wfid, status="ERROR", exc=type(e).__name__)
                _notify()
                return
            finally:
                self.running.pop(wfid, None)
            with self._conn() as c:
                c.execute("UPDATE workflow_status SET status='SUCCESS', output=? WHERE workflow_uuid=?", (_dumps(out), wfid))
                c.commit()
            _obs("dbos-wf-end", wf=wfid, status="SUCCESS")
            _notify()
        t = asyncio.get_running_loop().create_task(_execute(), context=contextvars.copy_context())
        self.running[wfid] = t
        return t

    def recover(self) -> None:
        with self._conn() as c:
            rows = c.execute("SELECT workflow_uuid, name, inputs FROM workflow_status WHERE status='PENDING' AND executor_id=? ORDER BY rowid", (self.executor_id,)).fetchall()
        for wfid, name, inputs in rows:
            if wfid in self.running:
                continue
            fn = self.registry.get(name)
            if fn is None:
                _obs("dbos-recover-skip", wf=wfid, name=name)
                continue
            self.spawn(wfid, fn, pickle.loads(inputs), recovered=True)


class _Conn:
    """one connection per operation, closed on exit (like the repo's SqliteJournalCrud)"""

    def __init__(self, path: str) -> None:
        self.path = path

    def __enter__(self):
        self.c = sqlite3.connect(self.path, timeout=0)
        return self.c

    def __exit__(self, et, ev, tb):
        try:
            if et is not None:
                self.c.rollback()
        finally:
            self.c.close()
        return False


def _inst() -> _Instance:
    i = _instances.get(_INC.get())
    if i is None:
        raise RuntimeError("DBOS not initialised in this process (emulator): call DBOS(config=...) first")
    return i


class SetWorkflowID:
    def __init__(self, wfid: str) -> None:
        self.wfid = wfid

    def __enter__(self):
        self.tok = _NEXT_ID.set(self.wfid)
        return self

    def __exit__(self, *a):
        _NEXT_ID.reset(self.tok)
        return False


class WorkflowHandleAsync:
    def __init__(self, wfid: str, inst: _Instance) -> None:
        self.workflow_id = wfid
        self._inst = inst

    def get_workflow_id(self) -> str:
        return self.workflow_id

    async def get_status(self):
        row = self._inst.status(self.workflow_id)
        return None if row is None else type("WorkflowStatus", (), {"status": row[1], "name": row[0], "executor_id": row[5]})()

    async def get_result(self, polling_interval_sec: float = 1.0) -> Any:
        while True:
            row = self._inst.status(self.workflow_id)
            if row is None:
                raise DBOSNonExistentWorkflowError(self.workflow_id)
            if row[1] == "SUCCESS":
                return pickle.loads(row[3])
            if row[1] == "ERROR":
                raise pickle.loads(row[4])
            await _wait_change(None)


class _Meta(type):
    @property
    def workflow_id(cls) -> str | None:
        ctx = _CTX.get()
        return ctx.workflow_id if ctx is not None else None


class DBOS(metaclass=_Meta):
    def __init__(self, config: dict | None = None, **kw: Any) -> None:
        inc = _INC.get()
        old = _instances.get(inc)
        inst = _Instance(config or {})
        if old is not None:
            inst.registry.update(old.registry)
        _instances[inc] = inst

    # -- decorators ---------------------------------------------------------------------------------------------
    @staticmethod
    def workflow(name: str | None = None, **kw: Any):
        def deco(fn):
            wname = name or fn.__qualname__
            _inst().registry[wname] = fn
            fn.__dbos_workflow_name__ = wname
            return fn
        return deco

    @staticmethod
    def step(name: str | None = None, **kw: Any):
        def deco(fn):
            sname = name or fn.__qualname__

            def _enter():
                ctx = _CTX.get()
                if ctx is None or _IN_STEP.get():
                    return None, None, None
                ctx.function_id += 1
                fid = ctx.function_id
                rec = ctx.inst.lookup(ctx.workflow_id, fid)
                if rec is not None:
                    if rec[0] != sname:
                        _obs("dbos-unexpected-step", wf=ctx.workflow_id, fid=fid, expected=sname, recorded=rec[0])
                        raise DBOSUnexpectedStepError(ctx.workflow_id, fid, sname, rec[0])
                    _obs("dbos-step-replayed", wf=ctx.workflow_id, fid=fid, name=sname)
                return ctx, fid, rec

            if inspect.iscoroutinefunction(fn):
                @functools.wraps(fn)
                async def aw(*a: Any, **k: Any):
                    ctx, fid, rec = _enter()
                    if ctx is None:
                        return await fn(*a, **k)
                    await _hop()
                    if rec is not None:
                        if rec[2] is not None:
                            raise pickle.loads(rec[2])
                        return pickle.loads(rec[1])
                    tok = _IN_STEP.set(True)
                    try:
                        try:
                            out = await fn(*a, **k)
                        except Exception as e:  # noqa: BLE001
                            ctx.inst.record(ctx.workflow_id, fid, sname, error=e)
                            raise
                    finally:
                        _IN_STEP.reset(tok)
                    ctx.inst.record(ctx.workflow_id, fid, sname, output=out)
                    return out
                return aw

            @functools.wraps(fn)
            def sw(*a: Any, **k: Any):
                ctx, fid, rec = _enter()
                if ctx is None:
                    return fn(*a, **k)
                if rec is not None:
                    if rec[2] is not None:
                        raise pickle.loads(rec[2])
                    return pickle.loads(rec[1])
                tok = _IN_STEP.set(True)
                try:
                    try:
                        out = fn(*a, **k)
                    except Exception as e:  # noqa: BLE001
                        ctx.inst.record(ctx.workflow_id, fid, sname, error=e)
                        raise
                finally:
                    _IN_STEP.reset(tok)
                ctx.inst.record(ctx.workflow_id, fid, sname, output=out)
                return out
            return sw
        return deco

    # -- lifecycle ----------------------------------------------------------------------------------------------
    @staticmethod
    def launch() -> None:
        inst = _inst()
        inst.launched = True
        inst.recover()

    @staticmethod
    def destroy(**kw: Any) -> None:
        inst = _instances.pop(_INC.get(), None)
        if inst is not None:
            for t in list(inst.running.values()):
                t.cancel()
            inst.running.clear()

    # -- workflows ----------------------------------------------------------------------------------------------
    @staticmethod
    async def start_workflow_async(fn: Any, *args: Any, **kwargs: Any) -> WorkflowHandleAsync:
        inst = _inst()
        wfid = _NEXT_ID.get()
        if wfid is None:
            import uuid
            wfid = str(uuid.uuid4())
        name = getattr(fn, "__dbos_workflow_name__", fn.__qualname__)
        with inst._conn() as c:
            row = c.execute("SELECT status FROM workflow_status WHERE workflow_uuid=?", (wfid,)).fetchone()
            if row is None:
                c.execute("INSERT INTO workflow_status (workflow_uuid, name, status, inputs, executor_id) VALUES (?,?,?,?,?)",
                          (wfid, name, "PENDING", _dumps(tuple(args)), inst.executor_id))
                c.commit()
        if row is None:
            _obs("dbos-wf-enqueued", wf=wfid, name=name)
            inst.spawn(wfid, fn, pickle.loads(_dumps(tuple(args))))
        return WorkflowHandleAsync(wfid, inst)

    @staticmethod
    async def retrieve_workflow_async(wfid: str, **kw: Any) -> WorkflowHandleAsync:
        inst = _inst()
        if inst.status(wfid) is None:
            raise DBOSNonExistentWorkflowError(wfid)
        return WorkflowHandleAsync(wfid, inst)

    @staticmethod
    async def delete_workflow_async(wfid: str, **kw: Any) -> None:
        inst = _inst()
        with inst._conn() as c:
            for tbl, col in (("workflow_status", "workflow_uuid"), ("operation_outputs", "workflow_uuid"), ("notifications", "destination_uuid"), ("streams", "workflow_uuid")):
                c.execute(f"DELETE FROM {tbl} WHERE {col}=?", (wfid,))
            c.commit()
        _obs("dbos-wf-deleted", wf=wfid)
        _notify()

    # -- messaging ----------------------------------------------------------------------------------------------
    @staticmethod
    def send(destination_id: str, message: Any, topic: str | None = None, **kw: Any) -> None:
        ctx = _CTX.get()
        if ctx is not None and _IN_STEP.get():
            raise RuntimeError("DBOS (emulator): send() must not be called from within a step")
        inst = ctx.inst if ctx is not None else _inst()
        with inst._conn() as c:
            if ctx is not None:
                ctx.function_id += 1
                fid = ctx.function_id
                if c.execute("SELECT 1 FROM operation_outputs WHERE workflow_uuid=? AND function_id=?", (ctx.workflow_id, fid)).fetchone():
                    return
            if c.execute("SELECT 1 FROM workflow_status WHERE workflow_uuid=?", (destination_id,)).fetchone() is None:
                raise DBOSNonExistentWorkflowError(destination_id)
            c.execute("INSERT INTO notifications (destination_uuid, topic, message) VALUES (?,?,?)", (destination_id, topic, _dumps(message)))
            if ctx is not None:
                inst.record(ctx.workflow_id, fid, "DBOS.send", conn=c)
            c.commit()
        _obs("dbos-send", dest=destination_id, topic=topic, msg=type(message).__name__, uid=getattr(getattr(message, "event", None), "uid", None))
        _notify()

    @staticmethod
    async def send_async(destination_id: str, message: Any, topic: str | None = None, **kw: Any) -> None:
        DBOS.send(destination_id, message, topic)

    @staticmethod
    async def recv_async(topic: str | None = None, timeout_seconds: float = 60) -> Any:
        ctx = _CTX.get()
        if ctx is None or _IN_STEP.get():
            raise RuntimeError("DBOS (emulator): recv_async() must be called from a workflow function")
        inst, wfid = ctx.inst, ctx.workflow_id
        ctx.function_id += 1
        fid = ctx.function_id
        ctx.function_id += 1
        tfid = ctx.function_id
        rec = inst.lookup(wfid, fid)
        await _hop()
        if rec is not None:
            if rec[0] != "DBOS.recv":
                _obs("dbos-unexpected-step", wf=wfid, fid=fid, expected="DBOS.recv", recorded=rec[0])
                raise DBOSUnexpectedStepError(wfid, fid, "DBOS.recv", rec[0])
            _obs("dbos-recv-replayed", wf=wfid, fid=fid)
            return pickle.loads(rec[1])
        trec = inst.lookup(wfid, tfid)
        if trec is not None:
            deadline = pickle.loads(trec[1])
        else:
            deadline = time.time() + float(timeout_seconds)
            inst.record(wfid, tfid, "DBOS.sleep", output=deadline)
        while True:
            with inst._conn() as c:
                row = c.execute("SELECT id, message FROM notifications WHERE destination_uuid=? AND topic IS ? ORDER BY id LIMIT 1", (wfid, topic)).fetchone()
                if row is not None:
                    c.execute("DELETE FROM notifications WHERE id=?", (row[0],))
                    inst.record(wfid, fid, "DBOS.recv", output=pickle.loads(row[1]), conn=c)
                    c.commit()
            if row is not None:
                msg = pickle.loads(row[1])
                _obs("dbos-recv", wf=wfid, fid=fid, msg=type(msg).__name__, uid=getattr(getattr(msg, "event", None), "uid", None))
                return msg
            remaining = deadline - time.time()
            if remaining <= 0:
                inst.record(wfid, fid, "DBOS.recv", output=None)
                return None
            await _wait_change(remaining)

    # -- streams ------------------------------------------------------------------------------------------------
    @staticmethod
    async def write_stream_async(key: str, value: Any) -> None:
        ctx = _CTX.get()
        if ctx is None:
            raise RuntimeError("DBOS (emulator): write_stream_async() must be called from a workflow or step")
        inst, wfid = ctx.inst, ctx.workflow_id
        in_step = _IN_STEP.get()
        with inst._conn() as c:
            if not in_step:
                ctx.function_id += 1
                fid = ctx.function_id
                if c.execute("SELECT 1 FROM operation_outputs WHERE workflow_uuid=? AND function_id=?", (wfid, fid)).fetchone():
                    return
            off = c.execute("SELECT COALESCE(MAX(offset), -1) + 1 FROM streams WHERE workflow_uuid=? AND key=?", (wfid, key)).fetchone()[0]
            c.execute("INSERT INTO streams (workflow_uuid, key, offset, value) VALUES (?,?,?,?)", (wfid, key, off, _dumps(value)))
            if not in_step:
                inst.record(wfid, fid, "DBOS.writeStream", conn=c)
            c.commit()
        _notify()

    @staticmethod
    async def read_stream_async(wfid: str, key: str):
        inst = _inst()
        off = 0
        while True:
            with inst._conn() as c:
                rows = c.execute("SELECT offset, value FROM streams WHERE workflow_uuid=? AND key=? AND offset>=? ORDER BY offset", (wfid, key, off)).fetchall()
                st = c.execute("SELECT status FROM workflow_status WHERE workflow_uuid=?", (wfid,)).fetchone()
            for o, v in rows:
                off = o + 1
                yield pickle.loads(v)
            if not rows and (st is None or st[0] != "PENDING"):
                return
            if not rows:
                await _wait_change(None)
