from . import _inst


def _get_dbos_instance():
    return _inst()
