from . import _CTX


def get_local_dbos_context():
    return _CTX.get()
