class DBOSException(Exception):
    pass


class DBOSNonExistentWorkflowError(DBOSException):
    def __init__(self, destination_id: str = "") -> None:
        super().__init__(f"Sent to non-existent destination workflow ID: {destination_id}")
        self.destination_id = destination_id

    def __reduce__(self):
        return (DBOSNonExistentWorkflowError, (self.destination_id,))


class DBOSUnexpectedStepError(DBOSException):
    def __init__(self, workflow_id: str = "", step_id: int = 0, expected_name: str = "", recorded_name: str = "") -> None:
        super().__init__(f"During execution of workflow {workflow_id} step {step_id}, function {recorded_name} was recorded when {expected_name} was expected. "
                         "Check that your workflow is deterministic.")
        self.args_ = (workflow_id, step_id, expected_name, recorded_name)

    def __reduce__(self):
        return (DBOSUnexpectedStepError, self.args_)
